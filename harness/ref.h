/* ref.h - reference semantics of the Orc "sys" opcodes, written from
 * doc/opcode_table.xml, doc/opcodes.xml and the property statements,
 * independently of orc/opcodes.h and of the emulator.  Values are passed as
 * zero-extended bit patterns in uint64_t. */
#ifndef REF_H
#define REF_H
#include <stdint.h>

typedef void (*RefFn) (const uint64_t *s, uint64_t *d);

enum {
  RK_ELEM = 0,   /* pure per-element function */
  RK_LOAD,       /* array[i] */
  RK_LOADOFF,    /* array[i+offset] */
  RK_LOADUPD,    /* array[i>>1] */
  RK_LOADUPI,    /* i even: array[i>>1]; odd: (array[i>>1]+array[(i>>1)+1]+1)>>1 */
  RK_LOADP,      /* scalar */
  RK_RESNEAR,    /* array[(b+c*i)>>16] */
  RK_RESLIN,     /* bilinear between array[(b+c*i)>>16] and the next one */
  RK_STORE,
  RK_ACC         /* accumulate: fn gives the addend */
};

#define RF_SCALAR   1   /* sources 1.. must be constants or parameters */
#define RF_FLOAT_S  2   /* float sources */
#define RF_FLOAT_D  4   /* float destination */
#define RF_ACC      8

typedef struct {
  const char *name;
  int dsz[2];
  int ssz[4];
  unsigned flags;
  int kind;
  RefFn fn;
} RefOp;

extern const RefOp ref_ops[];
extern const int ref_n_ops;
const RefOp *ref_find (const char *name);

static inline uint64_t ref_mask (int size)
{
  return size >= 8 ? ~(uint64_t) 0 : (((uint64_t) 1 << (size * 8)) - 1);
}

/* apply op lane-wise: mult = 1,2,4; operand sizes are op sizes * mult.
 * Scalar (RF_SCALAR) sources 1.. are not split: the same value is used in each lane. */
void ref_apply (const RefOp *op, int mult, const uint64_t *s, uint64_t *d);

/* float classification helpers (bit patterns) */
static inline int ref_isnan32 (uint32_t x) { return (x & 0x7f800000u) == 0x7f800000u && (x & 0x007fffffu); }
static inline int ref_isnan64 (uint64_t x) { return (x & 0x7ff0000000000000ULL) == 0x7ff0000000000000ULL && (x & 0x000fffffffffffffULL); }
static inline int ref_isden32 (uint32_t x) { return (x & 0x7f800000u) == 0 && (x & 0x007fffffu); }
static inline int ref_isden64 (uint64_t x) { return (x & 0x7ff0000000000000ULL) == 0 && (x & 0x000fffffffffffffULL); }
static inline int ref_isinf32 (uint32_t x) { return (x & 0x7fffffffu) == 0x7f800000u; }
static inline int ref_isinf64 (uint64_t x) { return (x & 0x7fffffffffffffffULL) == 0x7ff0000000000000ULL; }

#endif
