/* vh.h - common harness support: arguments, PRNG, event output, counters,
 * string sets, progress file.  Header-only; every harness is single-threaded
 * per process unless it says otherwise (mt.c has its own locking). */
#ifndef VH_H
#define VH_H

#include <stdio.h>
#include <stdlib.h>
#include <string.h>
#include <stdint.h>
#include <stdarg.h>
#include <unistd.h>
#include <fcntl.h>
#include <errno.h>

/* ---------------- arguments ---------------- */
typedef struct {
  uint64_t seed;
  int thorough;
  int shard, nshards;
  long start;           /* first case index to run (restart after a crash) */
  long only;            /* run only this case (-1: all) */
  const char *out;      /* event file (append) */
  const char *progress; /* progress file */
  const char *mode;     /* harness specific */
  const char *replay;   /* replay file */
  const char *aux;      /* harness specific */
  const char *aux2;
  long limit;           /* harness specific scale knob, 0 = default */
  int verbose;
} VhArgs;

static VhArgs vh_args = { 1, 0, 0, 1, 0, -1, NULL, NULL, "", NULL, NULL, NULL, 0, 0 };
static FILE *vh_out;
static int vh_progress_fd = -1;

static void vh_parse_args (int argc, char **argv)
{
  int i;
  for (i = 1; i < argc; i++) {
    const char *a = argv[i];
    const char *v = (i + 1 < argc) ? argv[i + 1] : NULL;
    if (!strcmp (a, "--seed") && v) { vh_args.seed = strtoull (v, NULL, 0); i++; }
    else if (!strcmp (a, "--tier") && v) { vh_args.thorough = !strcmp (v, "thorough"); i++; }
    else if (!strcmp (a, "--shard") && v) { vh_args.shard = atoi (v); i++; }
    else if (!strcmp (a, "--nshards") && v) { vh_args.nshards = atoi (v); i++; }
    else if (!strcmp (a, "--start") && v) { vh_args.start = atol (v); i++; }
    else if (!strcmp (a, "--only") && v) { vh_args.only = atol (v); i++; }
    else if (!strcmp (a, "--out") && v) { vh_args.out = v; i++; }
    else if (!strcmp (a, "--progress") && v) { vh_args.progress = v; i++; }
    else if (!strcmp (a, "--mode") && v) { vh_args.mode = v; i++; }
    else if (!strcmp (a, "--replay") && v) { vh_args.replay = v; i++; }
    else if (!strcmp (a, "--aux") && v) { vh_args.aux = v; i++; }
    else if (!strcmp (a, "--aux2") && v) { vh_args.aux2 = v; i++; }
    else if (!strcmp (a, "--limit") && v) { vh_args.limit = atol (v); i++; }
    else if (!strcmp (a, "-v")) { vh_args.verbose++; }
    else { fprintf (stderr, "unknown argument %s\n", a); exit (2); }
  }
  if (vh_args.out) {
    vh_out = fopen (vh_args.out, "a");
    if (!vh_out) { perror ("open out"); exit (2); }
  } else {
    vh_out = stdout;
  }
  if (vh_args.progress) {
    vh_progress_fd = open (vh_args.progress, O_WRONLY | O_CREAT, 0644);
  }
}

/* ---------------- PRNG (splitmix64 seeded xoshiro256**) ---------------- */
typedef struct { uint64_t s[4]; } VhRng;

static inline uint64_t vh_splitmix (uint64_t *x)
{
  uint64_t z = (*x += 0x9e3779b97f4a7c15ULL);
  z = (z ^ (z >> 30)) * 0xbf58476d1ce4e5b9ULL;
  z = (z ^ (z >> 27)) * 0x94d049bb133111ebULL;
  return z ^ (z >> 31);
}

static inline void vh_rng_init (VhRng *r, uint64_t seed, uint64_t stream)
{
  uint64_t x = seed * 0x2545F4914F6CDD1DULL + stream * 0x9E3779B97F4A7C15ULL + 0x1234567;
  int i;
  for (i = 0; i < 4; i++) r->s[i] = vh_splitmix (&x);
}

static inline uint64_t vh_rotl (uint64_t x, int k) { return (x << k) | (x >> (64 - k)); }

static inline uint64_t vh_rand (VhRng *r)
{
  uint64_t *s = r->s;
  uint64_t result = vh_rotl (s[1] * 5, 7) * 9;
  uint64_t t = s[1] << 17;
  s[2] ^= s[0]; s[3] ^= s[1]; s[1] ^= s[2]; s[0] ^= s[3];
  s[2] ^= t; s[3] = vh_rotl (s[3], 45);
  return result;
}

/* uniform in [0,n) */
static inline uint32_t vh_randn (VhRng *r, uint32_t n)
{
  if (n <= 1) return 0;
  return (uint32_t) ((vh_rand (r) >> 32) * (uint64_t) n >> 32);
}

static inline int vh_chance (VhRng *r, int num, int den) { return (int) vh_randn (r, den) < num; }

/* ---------------- JSON helpers ---------------- */
typedef struct { char *p; size_t len, cap; } VhBuf;

static void vh_buf_reserve (VhBuf *b, size_t extra)
{
  if (b->len + extra + 1 > b->cap) {
    b->cap = (b->len + extra + 1) * 2 + 256;
    b->p = realloc (b->p, b->cap);
  }
}
static void vh_buf_reset (VhBuf *b) { b->len = 0; if (b->p) b->p[0] = 0; }
static void vh_buf_printf (VhBuf *b, const char *fmt, ...)
{
  va_list ap; int n;
  va_start (ap, fmt);
  n = vsnprintf (NULL, 0, fmt, ap);
  va_end (ap);
  vh_buf_reserve (b, n);
  va_start (ap, fmt);
  vsnprintf (b->p + b->len, n + 1, fmt, ap);
  va_end (ap);
  b->len += n;
}
/* append s as JSON string (with quotes) */
static void vh_buf_jstr (VhBuf *b, const char *s)
{
  vh_buf_reserve (b, strlen (s) * 6 + 2);
  b->p[b->len++] = '"';
  for (; *s; s++) {
    unsigned char c = *s;
    if (c == '"' || c == '\\') { b->p[b->len++] = '\\'; b->p[b->len++] = c; }
    else if (c == '\n') { b->p[b->len++] = '\\'; b->p[b->len++] = 'n'; }
    else if (c == '\t') { b->p[b->len++] = '\\'; b->p[b->len++] = 't'; }
    else if (c < 0x20 || c >= 0x7f) { b->len += sprintf (b->p + b->len, "\\u%04x", c); }
    else b->p[b->len++] = c;
  }
  b->p[b->len++] = '"';
  b->p[b->len] = 0;
}
static void vh_buf_hex (VhBuf *b, const void *data, size_t n)
{
  const unsigned char *d = data; size_t i;
  vh_buf_reserve (b, n * 2 + 2);
  b->p[b->len++] = '"';
  for (i = 0; i < n; i++) b->len += sprintf (b->p + b->len, "%02x", d[i]);
  b->p[b->len++] = '"';
  b->p[b->len] = 0;
}

/* ---------------- counters and sets ---------------- */
#define VH_MAX_COUNTERS 1024
typedef struct { char name[96]; uint64_t v; } VhCounter;
static VhCounter vh_counters[VH_MAX_COUNTERS];
static int vh_n_counters;

static void vh_count (const char *name, uint64_t delta)
{
  int i;
  /* open addressing on a small table: linear scan from hash */
  uint32_t h = 2166136261u; const char *p;
  for (p = name; *p; p++) h = (h ^ (unsigned char) *p) * 16777619u;
  for (i = 0; i < VH_MAX_COUNTERS; i++) {
    VhCounter *c = &vh_counters[(h + i) % VH_MAX_COUNTERS];
    if (c->name[0] == 0) {
      if (vh_n_counters >= VH_MAX_COUNTERS - 8) return;
      strncpy (c->name, name, sizeof (c->name) - 1);
      c->v = delta; vh_n_counters++;
      return;
    }
    if (!strcmp (c->name, name)) { c->v += delta; return; }
  }
}

static void vh_countf (uint64_t delta, const char *fmt, ...)
{
  char buf[96]; va_list ap;
  va_start (ap, fmt); vsnprintf (buf, sizeof buf, fmt, ap); va_end (ap);
  vh_count (buf, delta);
}

/* string sets: only items not yet emitted are remembered for the next flush */
#define VH_SET_SLOTS 65536
typedef struct VhSetItem { struct VhSetItem *next; int emitted; char s[]; } VhSetItem;
static VhSetItem *vh_set_tab[VH_SET_SLOTS];

/* returns 1 if new */
static int vh_set_add (const char *set, const char *item)
{
  char key[256]; uint32_t h = 2166136261u; const char *p; VhSetItem *it;
  snprintf (key, sizeof key, "%s\t%s", set, item);
  for (p = key; *p; p++) h = (h ^ (unsigned char) *p) * 16777619u;
  h %= VH_SET_SLOTS;
  for (it = vh_set_tab[h]; it; it = it->next) if (!strcmp (it->s, key)) return 0;
  it = malloc (sizeof (VhSetItem) + strlen (key) + 1);
  strcpy (it->s, key); it->emitted = 0; it->next = vh_set_tab[h]; vh_set_tab[h] = it;
  return 1;
}
static int vh_set_addf (const char *set, const char *fmt, ...)
{
  char buf[200]; va_list ap;
  va_start (ap, fmt); vsnprintf (buf, sizeof buf, fmt, ap); va_end (ap);
  return vh_set_add (set, buf);
}

/* ---------------- event output ---------------- */
static void vh_emit_raw (const char *json)
{
  fputs (json, vh_out); fputc ('\n', vh_out); fflush (vh_out);
}

/* flush counters (as deltas) and new set items */
static void vh_flush (void)
{
  VhBuf b = { 0 }; int i, first = 1;
  vh_buf_printf (&b, "{\"t\":\"stat\",\"k\":{");
  for (i = 0; i < VH_MAX_COUNTERS; i++) {
    VhCounter *c = &vh_counters[i];
    if (c->name[0] && c->v) {
      if (!first) vh_buf_printf (&b, ",");
      vh_buf_jstr (&b, c->name); vh_buf_printf (&b, ":%llu", (unsigned long long) c->v);
      c->v = 0; first = 0;
    }
  }
  vh_buf_printf (&b, "},\"sets\":{");
  {
    /* group by set name: emit as list of [set,item] pairs to keep it simple */
    int f2 = 1;
    vh_buf_printf (&b, "\"_\":[");
    for (i = 0; i < VH_SET_SLOTS; i++) {
      VhSetItem *it;
      for (it = vh_set_tab[i]; it; it = it->next) {
        if (!it->emitted) {
          if (!f2) vh_buf_printf (&b, ",");
          vh_buf_jstr (&b, it->s);
          it->emitted = 1; f2 = 0;
        }
      }
    }
    vh_buf_printf (&b, "]");
  }
  vh_buf_printf (&b, "}}");
  vh_emit_raw (b.p);
  free (b.p);
}

/* violation: sig is the stable signature, what a human text, detail a JSON
 * object text (may be NULL) holding everything needed to replay */
static void vh_violation (const char *prop, const char *sig, const char *what, const char *detail_json)
{
  VhBuf b = { 0 };
  vh_buf_printf (&b, "{\"t\":\"viol\",\"prop\":");
  vh_buf_jstr (&b, prop);
  vh_buf_printf (&b, ",\"sig\":"); vh_buf_jstr (&b, sig);
  vh_buf_printf (&b, ",\"what\":"); vh_buf_jstr (&b, what);
  vh_buf_printf (&b, ",\"detail\":%s}", detail_json ? detail_json : "null");
  vh_emit_raw (b.p);
  free (b.p);
  vh_countf (1, "violations.%s", prop);
}

static void vh_sample (const char *kind, const char *json)
{
  VhBuf b = { 0 };
  vh_buf_printf (&b, "{\"t\":\"sample\",\"kind\":"); vh_buf_jstr (&b, kind);
  vh_buf_printf (&b, ",\"v\":%s}", json);
  vh_emit_raw (b.p); free (b.p);
}

static void vh_note (const char *kind, const char *text)
{
  VhBuf b = { 0 };
  vh_buf_printf (&b, "{\"t\":\"note\",\"kind\":"); vh_buf_jstr (&b, kind);
  vh_buf_printf (&b, ",\"text\":"); vh_buf_jstr (&b, text);
  vh_buf_printf (&b, "}");
  vh_emit_raw (b.p); free (b.p);
}

static void vh_done (void)
{
  vh_flush ();
  vh_emit_raw ("{\"t\":\"done\"}");
}

/* progress: which case is about to run (for attributing a crash) */
static void vh_progress (long caseidx, const char *desc)
{
  char buf[512]; int n;
  if (vh_progress_fd < 0) return;
  n = snprintf (buf, sizeof buf, "%ld\t%s\n", caseidx, desc ? desc : "");
  if (n > (int) sizeof buf - 1) n = sizeof buf - 1;
  memset (buf + n, ' ', sizeof buf - n);
  buf[sizeof buf - 1] = '\n';
  if (pwrite (vh_progress_fd, buf, sizeof buf, 0) < 0) { /* ignore */ }
}

static inline int vh_my_case (long caseidx)
{
  if (vh_args.only >= 0) return caseidx == vh_args.only;
  if (caseidx < vh_args.start) return 0;
  return (caseidx % vh_args.nshards) == vh_args.shard;
}

#endif
