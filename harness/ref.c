/* ref.c - reference semantics (see ref.h).  Integer opcodes work on explicit
 * bit patterns with explicit masks, sign extension and saturation bounds. */
#include <string.h>
#include <math.h>
#include "ref.h"

#define A (s[0])
#define B (s[1])

static inline int64_t sx (uint64_t v, int bits)
{
  if (bits >= 64) return (int64_t) v;
  v &= (((uint64_t) 1 << bits) - 1);
  if (v >> (bits - 1)) return (int64_t) (v | ~(((uint64_t) 1 << bits) - 1));
  return (int64_t) v;
}
static inline uint64_t zx (uint64_t v, int bits)
{
  if (bits >= 64) return v;
  return v & (((uint64_t) 1 << bits) - 1);
}
static inline int64_t smax_of (int bits) { return (int64_t) ((((uint64_t) 1) << (bits - 1)) - 1); }
static inline int64_t smin_of (int bits) { return -(int64_t) (((uint64_t) 1) << (bits - 1)); }
static inline uint64_t umax_of (int bits) { return bits >= 64 ? ~(uint64_t) 0 : ((((uint64_t) 1) << bits) - 1); }
static inline int64_t clamp_s (int64_t v, int bits) { return v < smin_of (bits) ? smin_of (bits) : v > smax_of (bits) ? smax_of (bits) : v; }
static inline int64_t clamp_u (int64_t v, int bits) { return v < 0 ? 0 : v > (int64_t) umax_of (bits) ? (int64_t) umax_of (bits) : v; }

/* ---- generic integer families for widths 8,16,32 ---- */
#define INT_FAMILY(S, W) \
static void r_abs##S (const uint64_t *s, uint64_t *d) { int64_t a = sx (A, W); d[0] = zx ((uint64_t) (a < 0 ? -a : a), W); } \
static void r_add##S (const uint64_t *s, uint64_t *d) { d[0] = zx (A + B, W); } \
static void r_addss##S (const uint64_t *s, uint64_t *d) { d[0] = zx ((uint64_t) clamp_s (sx (A, W) + sx (B, W), W), W); } \
static void r_addus##S (const uint64_t *s, uint64_t *d) { d[0] = zx ((uint64_t) clamp_u ((int64_t) (zx (A, W) + zx (B, W)), W), W); } \
static void r_and##S (const uint64_t *s, uint64_t *d) { d[0] = zx (A & B, W); } \
static void r_andn##S (const uint64_t *s, uint64_t *d) { d[0] = zx ((~A) & B, W); } \
static void r_avgs##S (const uint64_t *s, uint64_t *d) { d[0] = zx ((uint64_t) ((sx (A, W) + sx (B, W) + 1) >> 1), W); } \
static void r_avgu##S (const uint64_t *s, uint64_t *d) { d[0] = zx ((zx (A, W) + zx (B, W) + 1) >> 1, W); } \
static void r_cmpeq##S (const uint64_t *s, uint64_t *d) { d[0] = zx (A, W) == zx (B, W) ? umax_of (W) : 0; } \
static void r_cmpgts##S (const uint64_t *s, uint64_t *d) { d[0] = sx (A, W) > sx (B, W) ? umax_of (W) : 0; } \
static void r_copy##S (const uint64_t *s, uint64_t *d) { d[0] = zx (A, W); } \
static void r_maxs##S (const uint64_t *s, uint64_t *d) { d[0] = sx (A, W) > sx (B, W) ? zx (A, W) : zx (B, W); } \
static void r_maxu##S (const uint64_t *s, uint64_t *d) { d[0] = zx (A, W) > zx (B, W) ? zx (A, W) : zx (B, W); } \
static void r_mins##S (const uint64_t *s, uint64_t *d) { d[0] = sx (A, W) < sx (B, W) ? zx (A, W) : zx (B, W); } \
static void r_minu##S (const uint64_t *s, uint64_t *d) { d[0] = zx (A, W) < zx (B, W) ? zx (A, W) : zx (B, W); } \
static void r_mull##S (const uint64_t *s, uint64_t *d) { d[0] = zx (zx (A, W) * zx (B, W), W); } \
static void r_mulhs##S (const uint64_t *s, uint64_t *d) { d[0] = zx ((uint64_t) ((sx (A, W) * sx (B, W)) >> W), W); } \
static void r_mulhu##S (const uint64_t *s, uint64_t *d) { d[0] = zx ((zx (A, W) * zx (B, W)) >> W, W); } \
static void r_or##S (const uint64_t *s, uint64_t *d) { d[0] = zx (A | B, W); } \
static void r_shl##S (const uint64_t *s, uint64_t *d) { d[0] = zx (zx (A, W) << (B & 63), W); } \
static void r_shrs##S (const uint64_t *s, uint64_t *d) { d[0] = zx ((uint64_t) (sx (A, W) >> (B & 63)), W); } \
static void r_shru##S (const uint64_t *s, uint64_t *d) { d[0] = zx (zx (A, W) >> (B & 63), W); } \
static void r_sign##S (const uint64_t *s, uint64_t *d) { int64_t a = sx (A, W); d[0] = zx ((uint64_t) (a > 0 ? 1 : a < 0 ? -1 : 0), W); } \
static void r_sub##S (const uint64_t *s, uint64_t *d) { d[0] = zx (A - B, W); } \
static void r_subss##S (const uint64_t *s, uint64_t *d) { d[0] = zx ((uint64_t) clamp_s (sx (A, W) - sx (B, W), W), W); } \
static void r_subus##S (const uint64_t *s, uint64_t *d) { d[0] = zx ((uint64_t) clamp_u ((int64_t) zx (A, W) - (int64_t) zx (B, W), W), W); } \
static void r_xor##S (const uint64_t *s, uint64_t *d) { d[0] = zx (A ^ B, W); }

INT_FAMILY (b, 8)
INT_FAMILY (w, 16)
INT_FAMILY (l, 32)

/* 64-bit */
static void r_copyq (const uint64_t *s, uint64_t *d) { d[0] = A; }
static void r_cmpeqq (const uint64_t *s, uint64_t *d) { d[0] = A == B ? ~(uint64_t) 0 : 0; }
static void r_cmpgtsq (const uint64_t *s, uint64_t *d) { d[0] = (int64_t) A > (int64_t) B ? ~(uint64_t) 0 : 0; }
static void r_andq (const uint64_t *s, uint64_t *d) { d[0] = A & B; }
static void r_andnq (const uint64_t *s, uint64_t *d) { d[0] = (~A) & B; }
static void r_orq (const uint64_t *s, uint64_t *d) { d[0] = A | B; }
static void r_xorq (const uint64_t *s, uint64_t *d) { d[0] = A ^ B; }
static void r_addq (const uint64_t *s, uint64_t *d) { d[0] = A + B; }
static void r_subq (const uint64_t *s, uint64_t *d) { d[0] = A - B; }
static void r_shlq (const uint64_t *s, uint64_t *d) { d[0] = A << (B & 63); }
static void r_shrsq (const uint64_t *s, uint64_t *d) { int64_t a = (int64_t) A; int sh = B & 63; d[0] = (uint64_t) (a < 0 ? ~((~a) >> sh) : a >> sh); }
static void r_shruq (const uint64_t *s, uint64_t *d) { d[0] = A >> (B & 63); }

/* 16-bit specials */
static void r_div255w (const uint64_t *s, uint64_t *d) { d[0] = zx (A, 16) / 255; }
static void r_divluw (const uint64_t *s, uint64_t *d)
{
  uint64_t a = zx (A, 16), b = B & 255;
  if (b == 0) d[0] = 255;
  else { uint64_t q = a / b; d[0] = q > 255 ? 255 : q; }
}

/* widening / narrowing */
static void r_convsbw (const uint64_t *s, uint64_t *d) { d[0] = zx ((uint64_t) sx (A, 8), 16); }
static void r_convubw (const uint64_t *s, uint64_t *d) { d[0] = zx (A, 8); }
static void r_splatbw (const uint64_t *s, uint64_t *d) { uint64_t a = zx (A, 8); d[0] = a | (a << 8); }
static void r_splatbl (const uint64_t *s, uint64_t *d) { uint64_t a = zx (A, 8); d[0] = a | (a << 8) | (a << 16) | (a << 24); }
static void r_convswl (const uint64_t *s, uint64_t *d) { d[0] = zx ((uint64_t) sx (A, 16), 32); }
static void r_convuwl (const uint64_t *s, uint64_t *d) { d[0] = zx (A, 16); }
static void r_convslq (const uint64_t *s, uint64_t *d) { d[0] = (uint64_t) sx (A, 32); }
static void r_convulq (const uint64_t *s, uint64_t *d) { d[0] = zx (A, 32); }

#define NARROW_FAMILY(N, WS, WD) \
static void r_conv##N (const uint64_t *s, uint64_t *d) { d[0] = zx (A, WD); } \
static void r_convsss##N (const uint64_t *s, uint64_t *d) { d[0] = zx ((uint64_t) clamp_s (sx (A, WS), WD), WD); } \
static void r_convsus##N (const uint64_t *s, uint64_t *d) { d[0] = zx ((uint64_t) clamp_u (sx (A, WS), WD), WD); } \
static void r_convuss##N (const uint64_t *s, uint64_t *d) { uint64_t a = zx (A, WS); d[0] = a > (uint64_t) smax_of (WD) ? (uint64_t) smax_of (WD) : a; } \
static void r_convuus##N (const uint64_t *s, uint64_t *d) { uint64_t a = zx (A, WS); d[0] = a > umax_of (WD) ? umax_of (WD) : a; }

NARROW_FAMILY (wb, 16, 8)
NARROW_FAMILY (lw, 32, 16)
NARROW_FAMILY (ql, 64, 32)
static void r_convhwb (const uint64_t *s, uint64_t *d) { d[0] = zx (A >> 8, 8); }
static void r_convhlw (const uint64_t *s, uint64_t *d) { d[0] = zx (A >> 16, 16); }

static void r_mulsbw (const uint64_t *s, uint64_t *d) { d[0] = zx ((uint64_t) (sx (A, 8) * sx (B, 8)), 16); }
static void r_mulubw (const uint64_t *s, uint64_t *d) { d[0] = zx (zx (A, 8) * zx (B, 8), 16); }
static void r_mulswl (const uint64_t *s, uint64_t *d) { d[0] = zx ((uint64_t) (sx (A, 16) * sx (B, 16)), 32); }
static void r_muluwl (const uint64_t *s, uint64_t *d) { d[0] = zx (zx (A, 16) * zx (B, 16), 32); }
static void r_mulslq (const uint64_t *s, uint64_t *d) { d[0] = (uint64_t) (sx (A, 32) * sx (B, 32)); }
static void r_mululq (const uint64_t *s, uint64_t *d) { d[0] = zx (A, 32) * zx (B, 32); }

/* accumulate: addend */
static void r_accw (const uint64_t *s, uint64_t *d) { d[0] = zx (A, 16); }
static void r_accl (const uint64_t *s, uint64_t *d) { d[0] = zx (A, 32); }
static void r_accsadubl (const uint64_t *s, uint64_t *d) { int64_t a = (int64_t) zx (A, 8), b = (int64_t) zx (B, 8); d[0] = (uint64_t) (a > b ? a - b : b - a); }

/* byte order */
static uint64_t bswap_n (uint64_t v, int bytes)
{
  uint64_t r = 0; int i;
  for (i = 0; i < bytes; i++) r |= ((v >> (8 * i)) & 0xff) << (8 * (bytes - 1 - i));
  return r;
}
static void r_swapw (const uint64_t *s, uint64_t *d) { d[0] = bswap_n (zx (A, 16), 2); }
static void r_swapl (const uint64_t *s, uint64_t *d) { d[0] = bswap_n (zx (A, 32), 4); }
static void r_swapq (const uint64_t *s, uint64_t *d) { d[0] = bswap_n (A, 8); }
static void r_swapwl (const uint64_t *s, uint64_t *d) { uint64_t a = zx (A, 32); d[0] = zx ((a << 16) | (a >> 16), 32); }
static void r_swaplq (const uint64_t *s, uint64_t *d) { d[0] = (A << 32) | (A >> 32); }
/* first half = the half at the lower address = low-order half (little endian) */
static void r_select0wb (const uint64_t *s, uint64_t *d) { d[0] = zx (A, 8); }
static void r_select1wb (const uint64_t *s, uint64_t *d) { d[0] = zx (A >> 8, 8); }
static void r_select0lw (const uint64_t *s, uint64_t *d) { d[0] = zx (A, 16); }
static void r_select1lw (const uint64_t *s, uint64_t *d) { d[0] = zx (A >> 16, 16); }
static void r_select0ql (const uint64_t *s, uint64_t *d) { d[0] = zx (A, 32); }
static void r_select1ql (const uint64_t *s, uint64_t *d) { d[0] = zx (A >> 32, 32); }
static void r_mergebw (const uint64_t *s, uint64_t *d) { d[0] = zx (A, 8) | (zx (B, 8) << 8); }
static void r_mergewl (const uint64_t *s, uint64_t *d) { d[0] = zx (A, 16) | (zx (B, 16) << 16); }
static void r_mergelq (const uint64_t *s, uint64_t *d) { d[0] = zx (A, 32) | (zx (B, 32) << 32); }
/* split: first destination gets the second (high) half, second destination the first (low) half */
static void r_splitwb (const uint64_t *s, uint64_t *d) { d[0] = zx (A >> 8, 8); d[1] = zx (A, 8); }
static void r_splitlw (const uint64_t *s, uint64_t *d) { d[0] = zx (A >> 16, 16); d[1] = zx (A, 16); }
static void r_splitql (const uint64_t *s, uint64_t *d) { d[0] = zx (A >> 32, 32); d[1] = zx (A, 32); }
static void r_splatw3q (const uint64_t *s, uint64_t *d) { uint64_t h = A >> 48; d[0] = h | (h << 16) | (h << 32) | (h << 48); }

/* ---- floating point: IEEE single/double, denormal inputs and outputs flushed to (signed) zero ---- */
static inline uint32_t ftz32 (uint32_t x) { return (x & 0x7f800000u) == 0 ? (x & 0x80000000u) : x; }
static inline uint64_t ftz64 (uint64_t x) { return (x & 0x7ff0000000000000ULL) == 0 ? (x & 0x8000000000000000ULL) : x; }
static inline float f_of (uint32_t b) { float f; memcpy (&f, &b, 4); return f; }
static inline uint32_t b_of (float f) { uint32_t b; memcpy (&b, &f, 4); return b; }
static inline double d_of (uint64_t b) { double f; memcpy (&f, &b, 8); return f; }
static inline uint64_t q_of (double f) { uint64_t b; memcpy (&b, &f, 8); return b; }

#define FBIN(N, EXPR) \
static void r_##N##f (const uint64_t *s, uint64_t *d) { volatile float a = f_of (ftz32 ((uint32_t) A)), b = f_of (ftz32 ((uint32_t) B)); volatile float r = EXPR; d[0] = ftz32 (b_of (r)); } \
static void r_##N##d (const uint64_t *s, uint64_t *d) { volatile double a = d_of (ftz64 (A)), b = d_of (ftz64 (B)); volatile double r = EXPR; d[0] = ftz64 (q_of (r)); }
FBIN (add, a + b)
FBIN (sub, a - b)
FBIN (mul, a * b)
FBIN (div, a / b)
static void r_sqrtf (const uint64_t *s, uint64_t *d) { volatile float a = f_of (ftz32 ((uint32_t) A)); volatile float r = sqrtf (a); d[0] = ftz32 (b_of (r)); }
static void r_sqrtd (const uint64_t *s, uint64_t *d) { volatile double a = d_of (ftz64 (A)); volatile double r = sqrt (a); d[0] = ftz64 (q_of (r)); }
/* min/max: NaN handling is not fixed by the reference; this follows "first NaN wins",
 * callers do not judge NaN cases nor which of two numerically equal operands is returned */
static void r_maxf (const uint64_t *s, uint64_t *d) { uint32_t a = ftz32 ((uint32_t) A), b = ftz32 ((uint32_t) B); d[0] = ref_isnan32 (a) ? a : ref_isnan32 (b) ? b : (f_of (a) > f_of (b) ? a : b); }
static void r_minf (const uint64_t *s, uint64_t *d) { uint32_t a = ftz32 ((uint32_t) A), b = ftz32 ((uint32_t) B); d[0] = ref_isnan32 (a) ? a : ref_isnan32 (b) ? b : (f_of (a) < f_of (b) ? a : b); }
static void r_maxd (const uint64_t *s, uint64_t *d) { uint64_t a = ftz64 (A), b = ftz64 (B); d[0] = ref_isnan64 (a) ? a : ref_isnan64 (b) ? b : (d_of (a) > d_of (b) ? a : b); }
static void r_mind (const uint64_t *s, uint64_t *d) { uint64_t a = ftz64 (A), b = ftz64 (B); d[0] = ref_isnan64 (a) ? a : ref_isnan64 (b) ? b : (d_of (a) < d_of (b) ? a : b); }
static void r_cmpeqf (const uint64_t *s, uint64_t *d) { d[0] = f_of (ftz32 ((uint32_t) A)) == f_of (ftz32 ((uint32_t) B)) ? 0xffffffffu : 0; }
static void r_cmpltf (const uint64_t *s, uint64_t *d) { d[0] = f_of (ftz32 ((uint32_t) A)) < f_of (ftz32 ((uint32_t) B)) ? 0xffffffffu : 0; }
static void r_cmplef (const uint64_t *s, uint64_t *d) { d[0] = f_of (ftz32 ((uint32_t) A)) <= f_of (ftz32 ((uint32_t) B)) ? 0xffffffffu : 0; }
static void r_cmpeqd (const uint64_t *s, uint64_t *d) { d[0] = d_of (ftz64 (A)) == d_of (ftz64 (B)) ? ~(uint64_t) 0 : 0; }
static void r_cmpltd (const uint64_t *s, uint64_t *d) { d[0] = d_of (ftz64 (A)) < d_of (ftz64 (B)) ? ~(uint64_t) 0 : 0; }
static void r_cmpled (const uint64_t *s, uint64_t *d) { d[0] = d_of (ftz64 (A)) <= d_of (ftz64 (B)) ? ~(uint64_t) 0 : 0; }
/* float -> int32: truncation toward zero; out-of-range saturates (positive -> INT32_MAX, negative -> INT32_MIN) */
static uint64_t conv_to_l (double v, int isnan_, int negbit)
{
  if (isnan_) return negbit ? 0x80000000u : 0x7fffffffu;   /* observation only: callers do not judge NaN */
  if (v >= 2147483648.0) return 0x7fffffffu;
  if (v <= -2147483649.0) return 0x80000000u;
  return (uint64_t) (uint32_t) (int32_t) v;
}
static void r_convfl (const uint64_t *s, uint64_t *d) { uint32_t a = (uint32_t) A; d[0] = conv_to_l ((double) f_of (a), ref_isnan32 (a), a >> 31); }
static void r_convdl (const uint64_t *s, uint64_t *d) { uint64_t a = A; d[0] = conv_to_l (d_of (a), ref_isnan64 (a), (int) (a >> 63)); }
static void r_convlf (const uint64_t *s, uint64_t *d) { volatile float r = (float) (int32_t) (uint32_t) A; d[0] = b_of (r); }
static void r_convld (const uint64_t *s, uint64_t *d) { volatile double r = (double) (int32_t) (uint32_t) A; d[0] = q_of (r); }
static void r_convwf (const uint64_t *s, uint64_t *d) { volatile float r = (float) (int16_t) (uint16_t) A; d[0] = b_of (r); }
static void r_convfd (const uint64_t *s, uint64_t *d) { volatile double r = (double) f_of (ftz32 ((uint32_t) A)); d[0] = q_of (r); }
static void r_convdf (const uint64_t *s, uint64_t *d) { volatile float r = (float) d_of (ftz64 (A)); d[0] = ftz32 (b_of (r)); }
static void r_orf (const uint64_t *s, uint64_t *d) { d[0] = zx (A | B, 32); }
static void r_andf (const uint64_t *s, uint64_t *d) { d[0] = zx (A & B, 32); }

static void r_ident (const uint64_t *s, uint64_t *d) { d[0] = A; }

#define U1(n, S) { #n, { S }, { S }, 0, RK_ELEM, r_##n }
#define B2(n, S) { #n, { S }, { S, S }, 0, RK_ELEM, r_##n }
#define SH(n, S) { #n, { S }, { S, S }, RF_SCALAR, RK_ELEM, r_##n }
#define CV(n, D, S) { #n, { D }, { S }, 0, RK_ELEM, r_##n }
#define W2(n, D, S) { #n, { D }, { S, S }, 0, RK_ELEM, r_##n }

#define INT_ROWS(S, Z) \
  U1 (abs##S, Z), B2 (add##S, Z), B2 (addss##S, Z), B2 (addus##S, Z), B2 (and##S, Z), B2 (andn##S, Z), \
  B2 (avgs##S, Z), B2 (avgu##S, Z), B2 (cmpeq##S, Z), B2 (cmpgts##S, Z), U1 (copy##S, Z), \
  B2 (maxs##S, Z), B2 (maxu##S, Z), B2 (mins##S, Z), B2 (minu##S, Z), B2 (mull##S, Z), B2 (mulhs##S, Z), \
  B2 (mulhu##S, Z), B2 (or##S, Z), SH (shl##S, Z), SH (shrs##S, Z), SH (shru##S, Z), U1 (sign##S, Z), \
  B2 (sub##S, Z), B2 (subss##S, Z), B2 (subus##S, Z), B2 (xor##S, Z)

#define LOADS(S, Z) \
  { "load" #S, { Z }, { Z }, 0, RK_LOAD, r_ident }, \
  { "loadoff" #S, { Z }, { Z, 4 }, RF_SCALAR, RK_LOADOFF, r_ident }, \
  { "loadp" #S, { Z }, { Z }, RF_SCALAR, RK_LOADP, r_ident }, \
  { "store" #S, { Z }, { Z }, 0, RK_STORE, r_ident }

const RefOp ref_ops[] = {
  INT_ROWS (b, 1), LOADS (b, 1),
  { "loadupdb", { 1 }, { 1 }, 0, RK_LOADUPD, r_ident },
  { "loadupib", { 1 }, { 1 }, 0, RK_LOADUPI, r_ident },
  { "ldresnearb", { 1 }, { 1, 4, 4 }, RF_SCALAR, RK_RESNEAR, r_ident },
  { "ldresnearl", { 4 }, { 4, 4, 4 }, RF_SCALAR, RK_RESNEAR, r_ident },
  { "ldreslinb", { 1 }, { 1, 4, 4 }, RF_SCALAR, RK_RESLIN, r_ident },
  { "ldreslinl", { 4 }, { 4, 4, 4 }, RF_SCALAR, RK_RESLIN, r_ident },
  INT_ROWS (w, 2), LOADS (w, 2),
  U1 (div255w, 2), B2 (divluw, 2),
  INT_ROWS (l, 4), LOADS (l, 4),
  { "loadq", { 8 }, { 8 }, 0, RK_LOAD, r_ident },
  { "loadpq", { 8 }, { 8 }, RF_SCALAR, RK_LOADP, r_ident },
  { "storeq", { 8 }, { 8 }, 0, RK_STORE, r_ident },
  U1 (splatw3q, 8), U1 (copyq, 8), B2 (cmpeqq, 8), B2 (cmpgtsq, 8), B2 (andq, 8), B2 (andnq, 8), B2 (orq, 8),
  B2 (xorq, 8), B2 (addq, 8), B2 (subq, 8), SH (shlq, 8), SH (shrsq, 8), SH (shruq, 8),
  CV (convsbw, 2, 1), CV (convubw, 2, 1), CV (splatbw, 2, 1), CV (splatbl, 4, 1),
  CV (convswl, 4, 2), CV (convuwl, 4, 2), CV (convslq, 8, 4), CV (convulq, 8, 4),
  CV (convwb, 1, 2), CV (convhwb, 1, 2), CV (convssswb, 1, 2), CV (convsuswb, 1, 2), CV (convusswb, 1, 2), CV (convuuswb, 1, 2),
  CV (convlw, 2, 4), CV (convhlw, 2, 4), CV (convssslw, 2, 4), CV (convsuslw, 2, 4), CV (convusslw, 2, 4), CV (convuuslw, 2, 4),
  CV (convql, 4, 8), CV (convsssql, 4, 8), CV (convsusql, 4, 8), CV (convussql, 4, 8), CV (convuusql, 4, 8),
  W2 (mulsbw, 2, 1), W2 (mulubw, 2, 1), W2 (mulswl, 4, 2), W2 (muluwl, 4, 2), W2 (mulslq, 8, 4), W2 (mululq, 8, 4),
  { "accw", { 2 }, { 2 }, RF_ACC, RK_ACC, r_accw },
  { "accl", { 4 }, { 4 }, RF_ACC, RK_ACC, r_accl },
  { "accsadubl", { 4 }, { 1, 1 }, RF_ACC, RK_ACC, r_accsadubl },
  U1 (swapw, 2), U1 (swapl, 4), U1 (swapwl, 4), U1 (swapq, 8), U1 (swaplq, 8),
  CV (select0wb, 1, 2), CV (select1wb, 1, 2), CV (select0lw, 2, 4), CV (select1lw, 2, 4), CV (select0ql, 4, 8), CV (select1ql, 4, 8),
  W2 (mergelq, 8, 4), W2 (mergewl, 4, 2), W2 (mergebw, 2, 1),
  { "splitql", { 4, 4 }, { 8 }, 0, RK_ELEM, r_splitql },
  { "splitlw", { 2, 2 }, { 4 }, 0, RK_ELEM, r_splitlw },
  { "splitwb", { 1, 1 }, { 2 }, 0, RK_ELEM, r_splitwb },
#define FB(n, Z) { #n, { Z }, { Z, Z }, RF_FLOAT_S | RF_FLOAT_D, RK_ELEM, r_##n }
#define FU(n, Z) { #n, { Z }, { Z }, RF_FLOAT_S | RF_FLOAT_D, RK_ELEM, r_##n }
#define FC(n, Z) { #n, { Z }, { Z, Z }, RF_FLOAT_S, RK_ELEM, r_##n }
  FB (addf, 4), FB (subf, 4), FB (mulf, 4), FB (divf, 4), FU (sqrtf, 4), FB (maxf, 4), FB (minf, 4),
  FC (cmpeqf, 4), FC (cmpltf, 4), FC (cmplef, 4),
  { "convfl", { 4 }, { 4 }, RF_FLOAT_S, RK_ELEM, r_convfl },
  { "convlf", { 4 }, { 4 }, RF_FLOAT_D, RK_ELEM, r_convlf },
  FB (addd, 8), FB (subd, 8), FB (muld, 8), FB (divd, 8), FU (sqrtd, 8), FB (maxd, 8), FB (mind, 8),
  FC (cmpeqd, 8), FC (cmpltd, 8), FC (cmpled, 8),
  { "convdl", { 4 }, { 8 }, RF_FLOAT_S, RK_ELEM, r_convdl },
  { "convld", { 8 }, { 4 }, RF_FLOAT_D, RK_ELEM, r_convld },
  { "convfd", { 8 }, { 4 }, RF_FLOAT_S | RF_FLOAT_D, RK_ELEM, r_convfd },
  { "convdf", { 4 }, { 8 }, RF_FLOAT_S | RF_FLOAT_D, RK_ELEM, r_convdf },
  FB (orf, 4), FB (andf, 4),
  { "convwf", { 4 }, { 2 }, RF_FLOAT_D, RK_ELEM, r_convwf },
};
const int ref_n_ops = sizeof (ref_ops) / sizeof (ref_ops[0]);

const RefOp *ref_find (const char *name)
{
  int i;
  for (i = 0; i < ref_n_ops; i++) if (!strcmp (ref_ops[i].name, name)) return &ref_ops[i];
  return 0;
}

void ref_apply (const RefOp *op, int mult, const uint64_t *s, uint64_t *d)
{
  int lane, k;
  if (mult == 1) { d[0] = d[1] = 0; op->fn (s, d); return; }
  d[0] = d[1] = 0;
  for (lane = 0; lane < mult; lane++) {
    uint64_t ls[4] = { 0, 0, 0, 0 }, ld[2] = { 0, 0 };
    for (k = 0; k < 4; k++) {
      if (!op->ssz[k]) continue;
      if (k >= 1 && (op->flags & RF_SCALAR)) ls[k] = s[k];
      else ls[k] = (s[k] >> (8 * op->ssz[k] * lane)) & ref_mask (op->ssz[k]);
    }
    op->fn (ls, ld);
    for (k = 0; k < 2; k++) {
      if (!op->dsz[k]) continue;
      d[k] |= (ld[k] & ref_mask (op->dsz[k])) << (8 * op->dsz[k] * lane);
    }
  }
}
