/* exec.c - differential execution harness.
 *
 * Runs generated programs natively (through the state-checking trampoline,
 * arrays in the guard arena), through the emulator, and through the reference
 * interpreter, and reports
 *   C01  native bytes/accumulators != emulation
 *   C03  access outside the entitled elements (guard-page fault, canary change, write to source)
 *   C10  calling-convention damage (callee-saved registers, rsp, stack canaries, MXCSR, DF, x87 tags)
 *   C18  float opcodes: native/emulation/reference disagreement beyond the stated tolerance
 *   C02x emulation != reference for multi-instruction programs (reported under C02)
 *
 * Modes select the program mix and placements; every monitor is active in every mode.
 */
#define _GNU_SOURCE
#include <orc/orc.h>
#include <orc/orcdebug.h>
#include "vh.h"
#include "ref.h"
#include "gen.h"
#include "arena.h"
#include "tramp.h"
#include <time.h>

/* ------------------------------------------------------------------ targets */
typedef struct { const char *name; OrcTarget *t; unsigned flags; int vecbytes; } Tgt;
static Tgt tgts[16];
static int n_tgts;

static void add_target (const char *name, int vecbytes)
{
  OrcTarget *t = orc_target_get_by_name (name);
  if (!t) return;
  tgts[n_tgts].name = name; tgts[n_tgts].t = t; tgts[n_tgts].flags = orc_target_get_default_flags (t);
  tgts[n_tgts].vecbytes = vecbytes; n_tgts++;
}

/* ------------------------------------------------------------------ arena slots */
#define MAXD 4
#define MAXS 8
static ArenaSlot slotA[2][MAXD], slotB[2][MAXD], slotC[2][MAXD], slotS[2][MAXS], slotEx;

static void slots_init (void)
{
  int st, i;
  for (st = 0; st < 2; st++) {
    for (i = 0; i < MAXD; i++) {
      /* the first destination of native runs has a 4 GiB boundary one page into its data (rows of larger mid-placed 2-D arrays lie on both sides) */
      arena_straddle_next = (st == 0 && i == 0) ? ARENA_PAGE : -1;
      arena_slot_init (&slotA[st][i], st, 0);
      arena_straddle_next = -1;
      arena_slot_init (&slotB[st][i], st, 0); arena_slot_init (&slotC[st][i], st, 0); }
    for (i = 0; i < MAXS; i++) {
      /* the first source: one page before the end of its data (trail-placed arrays) */
      arena_straddle_next = (st == 0 && i == 0) ? ARENA_DATA_BYTES - ARENA_PAGE : -1;
      arena_slot_init (&slotS[st][i], st, 1);
      arena_straddle_next = -1;
    }
  }
  arena_slot_init (&slotEx, 0, 0);
}

/* ------------------------------------------------------------------ run configuration */
enum { PL_MID = 0, PL_TRAIL, PL_LEAD };
static const char *pl_name[] = { "mid", "trail", "lead" };

typedef struct {
  int n, m;
  int placement;        /* for all arrays */
  int striped;          /* 2-D rows flush against unmapped pages */
  int off[GEN_MAX_VARS];/* MID: start misalignment in bytes (multiple of element size), per spec var */
  int gap[GEN_MAX_VARS];/* linear 2-D: extra stride bytes */
  uint32_t mxcsr;
  uint64_t cseed;       /* content seed */
} RunCfg;

typedef struct {
  int var, is_dest, esz, fsize, ord;
  long lo, hi;          /* entitled elements per row */
  int stride;
  long off0;            /* byte offset of element 0 of row 0 inside the data area (striped: inside the row page) */
} ArrPlace;

typedef struct {
  ArrPlace ap[MAXD + MAXS];
  int nap;
  RunIO ioA, ioB, ioC;
  int n, m;
} RunSetup;

static uint64_t param_val[GEN_MAX_VARS];

/* role of a parameter: decides its value domain */
enum { PR_GENERAL = 0, PR_SHIFT, PR_OFFSET, PR_RES_B, PR_RES_C, PR_FLOAT };

static int param_role (const ProgSpec *ps, int var, int *width)
{
  int q, k, role = PR_GENERAL;
  *width = 64;
  for (q = 0; q < ps->ninsns; q++) {
    const PInsn *in = &ps->insns[q]; const RefOp *op = gen_op (in);
    for (k = 0; k < 4; k++) {
      if (!op->ssz[k] || in->src[k] != var) continue;
      if (op->kind == RK_LOADOFF && k == 1) role = PR_OFFSET;
      else if ((op->kind == RK_RESNEAR || op->kind == RK_RESLIN) && k == 1) role = PR_RES_B;
      else if ((op->kind == RK_RESNEAR || op->kind == RK_RESLIN) && k == 2) role = PR_RES_C;
      else if (op->kind == RK_ELEM && (op->flags & RF_SCALAR) && k >= 1) { role = PR_SHIFT; if (op->ssz[0] * 8 < *width) *width = op->ssz[0] * 8; }
      else if ((op->flags & RF_FLOAT_S) && role == PR_GENERAL) role = PR_FLOAT;
    }
  }
  return role;
}

static int finite_only;
static int emu_only;             /* this run has no native code: only the emulator (and the reference) are exercised */
static int mode_emu_alone;       /* modes that judge the emulator also run programs no x86 target has code for */
static int ref_emu_flag = -1;    /* which monitor a reference-vs-emulation difference is reported under (default: by mode) */

static void choose_params (const ProgSpec *ps, VhRng *r, int n)
{
  int i;
  for (i = 0; i < ps->nvars; i++) {
    const PVar *v = &ps->vars[i]; int w, role;
    if (v->kind != VK_PARAM) continue;
    role = param_role (ps, i, &w);
    switch (role) {
      case PR_SHIFT: param_val[i] = vh_randn (r, w); break;
      case PR_OFFSET: param_val[i] = (uint64_t) (int64_t) ((int) vh_randn (r, 41) - 20) & 0xffffffffu; break;
      case PR_RES_B: param_val[i] = vh_randn (r, 4 << 16); break;
      case PR_RES_C: {
        /* keep (b + c*(n-1))>>16 below ~3000 elements */
        uint32_t maxc = n > 1 ? (uint32_t) ((2900u << 16) / (uint32_t) (n - 1)) : (3u << 16);
        if (maxc > (3u << 16)) maxc = 3u << 16;
        param_val[i] = vh_randn (r, maxc + 1);
        if (vh_chance (r, 1, 4)) param_val[i] = 1 << 16;
        if (vh_chance (r, 1, 8)) param_val[i] = 0;
        break; }
      case PR_FLOAT: param_val[i] = gen_rand_float (r, v->size == 8 ? 8 : 4, finite_only); break;
      default: param_val[i] = gen_rand_value (r, v->size); break;
    }
    if (v->size < 8) param_val[i] &= 0xffffffffu;
  }
}

/* float lane size of an array variable (0: integer data) */
static int var_fsize (const ProgSpec *ps, int var)
{
  int q, k;
  for (q = 0; q < ps->ninsns; q++) {
    const PInsn *in = &ps->insns[q]; const RefOp *op = gen_op (in);
    for (k = 0; k < 4; k++) if (op->ssz[k] && in->src[k] == var && (op->flags & RF_FLOAT_S) && op->kind == RK_ELEM &&
        op->fn != NULL && strcmp (op->name, "orf") && strcmp (op->name, "andf")) return op->ssz[k];
  }
  return 0;
}

static ArenaSlot *slot_for (const ArrPlace *a, int copy, int striped)
{
  if (!a->is_dest) return &slotS[striped][a->ord];
  return copy == 0 ? &slotA[striped][a->ord] : copy == 1 ? &slotB[striped][a->ord] : &slotC[striped][a->ord];
}

/* returns 0 if the configuration does not fit the arena */
static int setup_run (const ProgSpec *ps, const RunCfg *cfg, RunSetup *rs)
{
  int i, nd = 0, nsrc = 0;
  RunIO tmp;
  memset (rs, 0, sizeof *rs);
  rs->n = cfg->n; rs->m = cfg->m;
  memset (&tmp, 0, sizeof tmp);
  tmp.n = cfg->n; tmp.m = cfg->m;
  for (i = 0; i < ps->nvars; i++) tmp.param[i] = param_val[i];
  for (i = 0; i < ps->nvars; i++) {
    const PVar *v = &ps->vars[i]; ArrPlace *a; long lo, hi; int al, rowbytes;
    if (v->kind != VK_DEST && v->kind != VK_SRC) continue;
    a = &rs->ap[rs->nap++];
    a->var = i; a->is_dest = v->kind == VK_DEST; a->esz = v->size; a->fsize = var_fsize (ps, i);
    a->ord = a->is_dest ? nd++ : nsrc++;
    if (!gen_entitled (ps, &tmp, i, &lo, &hi)) { lo = 0; hi = 0; }
    a->lo = lo; a->hi = hi;
    al = v->align > v->size ? v->align : v->size;
    rowbytes = (int) ((hi > cfg->n ? hi : cfg->n) * a->esz);
    if (cfg->striped) {
      if ((hi - lo) * a->esz > ARENA_PAGE || cfg->m > ARENA_ROWS) return 0;
      a->stride = ARENA_STRIPE_STRIDE;
      if (cfg->placement == PL_TRAIL) a->off0 = (ARENA_PAGE - hi * a->esz) / al * al;
      else a->off0 = (-lo * a->esz + al - 1) / al * al;
      if (a->off0 + lo * a->esz < 0 || a->off0 + hi * a->esz > ARENA_PAGE) return 0;
    } else {
      long ext_lo, ext_hi;
      a->stride = cfg->m > 1 || ps->is2d ? ((rowbytes + cfg->gap[i] + al - 1) / al * al) : 0;
      if (ps->is2d && a->stride == 0) a->stride = al;
      ext_lo = lo * a->esz; ext_hi = (long) ((cfg->m > 0 ? cfg->m : 1) - 1) * a->stride + hi * a->esz;     /* m == 0: laid out like one row, none of it entitled */
      if (cfg->placement == PL_TRAIL) a->off0 = (ARENA_DATA_BYTES - ext_hi) / al * al;
      else if (cfg->placement == PL_LEAD) a->off0 = (-ext_lo + al - 1) / al * al;
      else a->off0 = ((1024 - ext_lo + 63) / 64 * 64) + (cfg->off[i] / al * al);
      if (a->off0 + ext_lo < 0 || a->off0 + ext_hi > ARENA_DATA_BYTES) return 0;
    }
  }
  return 1;
}

static void fill_values (VhRng *r, uint8_t *p, long nbytes, int esz, int fsize)
{
  if (!fsize) { gen_fill (r, p, nbytes, esz); return; }
  {
    long i;
    for (i = 0; i + fsize <= nbytes; i += fsize) { uint64_t v = gen_rand_float (r, fsize, finite_only); memcpy (p + i, &v, fsize); }
  }
}

/* fills arrays; sets io pointers (view side for A/B, rw for C) */
static void fill_run (const ProgSpec *ps, const RunCfg *cfg, RunSetup *rs, int want_c)
{
  int k, j, i;
  VhRng r;
  vh_rng_init (&r, cfg->cseed, 77);
  rs->ioA.n = rs->ioB.n = rs->ioC.n = cfg->n;
  rs->ioA.m = rs->ioB.m = rs->ioC.m = cfg->m;
  for (i = 0; i < ps->nvars; i++) rs->ioA.param[i] = rs->ioB.param[i] = rs->ioC.param[i] = param_val[i];
  for (k = 0; k < rs->nap; k++) {
    ArrPlace *a = &rs->ap[k];
    int copies = a->is_dest ? (want_c ? 3 : 2) : 1, c;
    for (j = 0; j < cfg->m; j++) {
      long boff = cfg->striped ? a->off0 + a->lo * a->esz : a->off0 + (long) j * a->stride + a->lo * a->esz;
      long len = (a->hi - a->lo) * a->esz;
      uint8_t *p0 = arena_data_rw (slot_for (a, 0, cfg->striped), cfg->striped ? j : 0) + boff;
      if (len > 0) fill_values (&r, p0, len, a->esz, a->fsize);
      for (c = 1; c < copies; c++) {
        uint8_t *pc = arena_data_rw (slot_for (a, c, cfg->striped), cfg->striped ? j : 0) + boff;
        if (len > 0) memcpy (pc, p0, len);
      }
    }
    rs->ioA.stride[a->var] = rs->ioB.stride[a->var] = rs->ioC.stride[a->var] = a->stride;
    rs->ioA.arr[a->var] = arena_data_view (slot_for (a, 0, cfg->striped), 0) + a->off0;
    if (!cfg->striped && cfg->m > 1) {
      uintptr_t first = (uintptr_t) rs->ioA.arr[a->var], last = first + (uintptr_t) (cfg->m - 1) * (uintptr_t) a->stride;
      if ((first >> 32) != (last >> 32)) vh_count ("runs.rows_on_both_sides_of_4GiB", 1);
    }
    rs->ioB.arr[a->var] = arena_data_view (slot_for (a, 1, cfg->striped), 0) + a->off0;
    rs->ioC.arr[a->var] = a->is_dest ? arena_data_rw (slot_for (a, 2, cfg->striped), 0) + a->off0 : arena_data_rw (slot_for (a, 0, cfg->striped), 0) + a->off0;
  }
}

static void restore_run (const RunCfg *cfg, RunSetup *rs, int full, int want_c)
{
  int k, j, c;
  for (k = 0; k < rs->nap; k++) {
    ArrPlace *a = &rs->ap[k];
    int copies = a->is_dest ? (want_c ? 3 : 2) : 1;
    for (c = 0; c < copies; c++) {
      ArenaSlot *s = slot_for (a, c, cfg->striped);
      if (full) {
        int rows = s->striped ? ARENA_ROWS : 1;
        for (j = 0; j < rows; j++) arena_repat (s, j, 0, arena_data_len (s));
        continue;
      }
      for (j = 0; j < cfg->m; j++) {
        long boff = cfg->striped ? a->off0 + a->lo * a->esz : a->off0 + (long) j * a->stride + a->lo * a->esz;
        long len = (a->hi - a->lo) * a->esz;
        if (len > 0) arena_repat (s, cfg->striped ? j : 0, boff, len);
      }
    }
  }
}

/* ------------------------------------------------------------------ failure record */
enum { F_NONE = 0, F_MISMATCH, F_ACC, F_FAULT_NATIVE, F_FAULT_EMU, F_CANARY_NATIVE, F_CANARY_EMU, F_SRC_CHANGED,
  F_ABI, F_REF_EMU, F_FLOAT, F_NAN, F_MASK, F_DENORMAL };
static const char *fail_name[] = { "none", "mismatch", "acc", "fault-native", "fault-emu", "canary-native", "canary-emu",
  "src-changed", "abi", "ref-emu", "float", "nan", "mask", "denormal" };
static const char *fail_prop[] = { "", "C01", "C01", "C03", "C03", "C03", "C03", "C03", "C10", "C02", "C18", "C18", "C18", "C18" };

typedef struct Failure_ Failure;
static const char *prop_of (const Failure *f);
struct Failure_ {
  int kind;
  char what[400];
  char sub[64];       /* sub-class for the signature (e.g. which register, read/write before/after) */
  int var, row; long elem;
  int c1, c2, c3;     /* loop counters observed */
};
/* a store outside "destination arrays and the executor structure it was handed" is the calling convention property's last clause
 * when that property is the one being decided, the entitlement property's otherwise */
static const char *prop_of (const Failure *f)
{
  if (!strcmp (vh_args.mode, "c10")) {
    /* any store that lands outside the entitled destination elements: behind the executor, wild, past either end of a destination
     * (guard page or canary), or into a source */
    if (f->kind == F_FAULT_NATIVE && !strncmp (f->sub, "write-", 6)) return "C10";
    if (f->kind == F_CANARY_NATIVE) return "C10";
  }
  /* native code that faults or never returns where emulation ran to completion has not computed what emulation computes */
  if (!strcmp (vh_args.mode, "c01") && f->kind == F_FAULT_NATIVE) return "C01";
  return fail_prop[f->kind];
}

static int want_ref;      /* also run the reference interpreter (C02x / C18) */
static unsigned report_mask = ~0u; /* failure kinds reported in this mode */
static int float_mode;    /* C18 comparison rules */
static OrcExecutor *exA;  /* lives in the arena, flush against a guard page */
static uint64_t run_count;
static long hangs_seen;   /* watchdog firings in this shard, reported or not */

#define NATIVE_WATCHDOG_S 5
#include <sys/time.h>
/* counts the process's own user CPU time, so a loaded machine cannot trip it */
static void watchdog (int s) { struct itimerval it; memset (&it, 0, sizeof it); it.it_value.tv_sec = s; setitimer (ITIMER_VIRTUAL, &it, NULL); }
static void fault_text (Failure *f, const RunSetup *rs, const RunCfg *cfg, const ProgSpec *ps, const char *who)
{
  int k, via = 0, cls = 0; const char *vn = "?"; const char *side = "";
  const uint8_t *addr = (const uint8_t *) arena_fault_addr;
  int is_write = (arena_fault_err & 2) != 0;
  f->var = -1;
  if (arena_fault_sig == SIGVTALRM) {
    /* watchdog: the call had not returned after NATIVE_WATCHDOG_S seconds of a run that normally takes microseconds */
    snprintf (f->sub, sizeof f->sub, "hang");
    snprintf (f->what, sizeof f->what, "%s code: still running after %d s of its own CPU time (n=%d m=%d), interrupted at rip %#lx", who, NATIVE_WATCHDOG_S, cfg->n, cfg->m, arena_fault_rip);
    return;
  }
  for (k = 0; k < rs->nap; k++) {
    const ArrPlace *a = &rs->ap[k]; int c;
    for (c = 0; c < (a->is_dest ? 3 : 1); c++) {
      ArenaSlot *s = slot_for (a, c, cfg->striped);
      int r = arena_classify (s, addr, &via);
      if (r) {
        const uint8_t *e0 = arena_data_view (s, 0) + a->off0 + a->lo * a->esz;
        cls = r; vn = ps->vars[a->var].name; f->var = a->var;
        side = addr < e0 ? "before" : "after";
        goto found;
      }
    }
  }
  if (arena_classify (&slotEx, addr, &via)) { vn = "executor"; cls = 2; side = "after"; }
found:
  snprintf (f->sub, sizeof f->sub, "%s-%s-%s%s", is_write ? "write" : "read", cls == 2 ? side : cls == 1 ? "readonly" : "wild",
      f->var >= 0 ? (ps->vars[f->var].kind == VK_DEST ? "dest" : "src") : vn, arena_fault_sig == 11 ? "" : "-sig");
  snprintf (f->what, sizeof f->what, "%s code: signal %d (code %d) at address %p (%s %s of array %s), rip %#lx", who, arena_fault_sig,
      arena_fault_code, (void *) addr, is_write ? "write" : "read", cls == 2 ? side : cls == 1 ? "inside read-only data" : "outside the arena", vn, arena_fault_rip);
}

/* float equivalence for C18: returns 1 if acceptable */
static int float_equiv (uint64_t a, uint64_t b, int fsize)
{
  if (a == b) return 1;
  if (fsize == 4) return ref_isnan32 ((uint32_t) a) && ref_isnan32 ((uint32_t) b);
  if (fsize == 8) return ref_isnan64 (a) && ref_isnan64 (b);
  return 0;
}

/* per-element taint for float programs: min/max of numerically equal operands, NaN anywhere */
static uint8_t *taint_buf;
static size_t taint_cap;
/* single-instruction arithmetic programs: per element, bit l set = lane l of the instruction had a NaN input ("a NaN input never
 * yields a non-NaN arithmetic result" is then checked on the native and on the emulated destination) */
static uint8_t *nanin_buf;
static int nanin_valid;
static int is_float_arith (const RefOp *op)
{
  static const char *names[] = { "addf", "subf", "mulf", "divf", "sqrtf", "maxf", "minf", "addd", "subd", "muld", "divd", "sqrtd", "maxd", "mind" };
  unsigned i; for (i = 0; i < sizeof names / sizeof names[0]; i++) if (!strcmp (op->name, names[i])) return 1;
  return 0;
}

static void compute_taint (const ProgSpec *ps, const RunIO *io)
{
  /* re-interpret per element, tracking NaNs and min/max ties */
  int j, i, q, k;
  uint64_t val[GEN_MAX_VARS];
  int has[GEN_MAX_VARS];
  size_t need = (size_t) io->n * io->m + 1;
  if (need > taint_cap) { taint_cap = need * 2; taint_buf = realloc (taint_buf, taint_cap); nanin_buf = realloc (nanin_buf, taint_cap); }
  memset (taint_buf, 0, need); memset (nanin_buf, 0, need);
  nanin_valid = ps->ninsns == 1 && is_float_arith (gen_op (&ps->insns[0]));
  for (j = 0; j < io->m; j++) for (i = 0; i < io->n; i++) {
    int t = 0;
    memset (has, 0, sizeof has);
    for (q = 0; q < ps->ninsns; q++) {
      const PInsn *in = &ps->insns[q]; const RefOp *op = gen_op (in);
      uint64_t s[4] = { 0 }, d[2] = { 0 };
      if (op->kind != RK_ELEM && op->kind != RK_ACC && op->kind != RK_LOAD && op->kind != RK_STORE && op->kind != RK_LOADP) { t = 1; break; }
      for (k = 0; k < 4; k++) {
        const PVar *v; int vi = in->src[k], esz;
        if (!op->ssz[k]) continue;
        v = &ps->vars[vi]; esz = op->ssz[k] * in->mult;
        if (v->kind == VK_TEMP || (v->kind == VK_DEST && has[vi])) s[k] = val[vi];
        else if (v->kind == VK_CONST || v->kind == VK_PARAM) {
          uint64_t sv = gen_scalar_value (v, io, vi);
          if ((op->flags & RF_SCALAR) && k >= 1) s[k] = sv;
          else { int l; uint64_t e = sv & ref_mask (op->ssz[k]); for (l = 0; l < in->mult; l++) s[k] |= e << (8 * op->ssz[k] * l); }
        } else s[k] = gen_rd (io->arr[vi] + (long) io->stride[vi] * j + (long) i * esz, esz);
      }
      if (op->kind == RK_ELEM || op->kind == RK_ACC) ref_apply (op, in->mult, s, d); else d[0] = s[0];
      if (op->flags & (RF_FLOAT_S | RF_FLOAT_D)) {
        int l, fs = op->ssz[0];
        int ismm = !strncmp (op->name, "max", 3) || !strncmp (op->name, "min", 3);
        for (l = 0; l < in->mult; l++) {
          for (k = 0; k < 4; k++) if (op->ssz[k] && (op->flags & RF_FLOAT_S)) {
            uint64_t x = (s[k] >> (8 * op->ssz[k] * l)) & ref_mask (op->ssz[k]);
            if (op->ssz[k] == 4 ? ref_isnan32 ((uint32_t) x) : ref_isnan64 (x)) { t = 1; if (nanin_valid && l < 8) nanin_buf[(size_t) j * io->n + i] |= (uint8_t) (1u << l); }
          }
          if (op->flags & RF_FLOAT_D) {
            uint64_t x = (d[0] >> (8 * op->dsz[0] * l)) & ref_mask (op->dsz[0]);
            if (op->dsz[0] == 4 ? ref_isnan32 ((uint32_t) x) : ref_isnan64 (x)) t = 1;
            /* a result that is the smallest normal (or a flushed zero) in a multi-instruction program may be the
             * flush-to-zero boundary case (see known finding C18-ftz-boundary); single-opcode programs report it */
            if (ps->ninsns > 1 && (op->flags & RF_FLOAT_S) && (op->dsz[0] == 4 ? ((x & 0x7fffffffu) == 0x00800000u || (x & 0x7fffffffu) == 0)
                : ((x & 0x7fffffffffffffffULL) == 0x0010000000000000ULL || (x & 0x7fffffffffffffffULL) == 0))) t = 1;
          }
          if (ismm) {
            uint64_t x = (s[0] >> (8 * fs * l)) & ref_mask (fs), y = (s[1] >> (8 * fs * l)) & ref_mask (fs);
            if (fs == 4) { uint32_t xa = (uint32_t) x, ya = (uint32_t) y; if (!(xa & 0x7f800000)) xa &= 0x80000000; if (!(ya & 0x7f800000)) ya &= 0x80000000;
              if (((xa | ya) & 0x7fffffff) == 0) t = 1; }
            else { uint64_t xa = x, ya = y; if (!(xa & 0x7ff0000000000000ULL)) xa &= 0x8000000000000000ULL; if (!(ya & 0x7ff0000000000000ULL)) ya &= 0x8000000000000000ULL;
              if (((xa | ya) & 0x7fffffffffffffffULL) == 0) t = 1; }
          }
        }
      }
      for (k = 0; k < 2; k++) if (op->dsz[k] && (ps->vars[in->dest[k]].kind == VK_TEMP || ps->vars[in->dest[k]].kind == VK_DEST)) {
        val[in->dest[k]] = d[k] & ref_mask (op->dsz[k] * in->mult); has[in->dest[k]] = 1; }
    }
    taint_buf[(size_t) j * io->n + i] = (uint8_t) t;
  }
}

/* NaN propagation of single-instruction arithmetic programs on copy X (0 native, 1 emulated); returns 1 and fills f on a violation */
static int check_nan_propagation (const ProgSpec *ps, const RunCfg *cfg, const RunSetup *rs, int X, Failure *f)
{
  int k, dv, fs; long row, el;
  if (!nanin_valid || !nanin_buf) return 0;
  dv = ps->insns[0].dest[0]; fs = gen_op (&ps->insns[0])->dsz[0];
  for (k = 0; k < rs->nap; k++) {
    const ArrPlace *a = &rs->ap[k]; ArenaSlot *sx;
    if (!a->is_dest || a->var != dv) continue;
    sx = slot_for (a, X, cfg->striped);
    for (row = 0; row < cfg->m; row++) for (el = 0; el < cfg->n; el++) {
      uint8_t lanes = nanin_buf[(size_t) row * cfg->n + el]; const uint8_t *px; uint64_t v; int l;
      if (!lanes) continue;
      px = cfg->striped ? arena_data_rw (sx, (int) row) + a->off0 + el * a->esz : arena_data_rw (sx, 0) + a->off0 + row * a->stride + el * a->esz;
      v = gen_rd (px, a->esz);
      for (l = 0; l < a->esz / fs; l++) if (lanes & (1u << l)) {
        uint64_t x = (v >> (8 * fs * l)) & ref_mask (fs);
        if (!(fs == 4 ? ref_isnan32 ((uint32_t) x) : ref_isnan64 (x))) {
          f->var = a->var; f->row = (int) row; f->elem = el; snprintf (f->sub, sizeof f->sub, "nan-lost");
          snprintf (f->what, sizeof f->what, "%s[row %ld][%ld] lane %d: a NaN input gave the non-NaN %s result %#llx", ps->vars[a->var].name, row, el, l, X == 0 ? "native" : "emulated", (unsigned long long) x);
          return 1;
        }
      }
    }
  }
  return 0;
}

/* compare destination copies X and Y (0=A native, 1=B emu, 2=C ref); returns 1 and fills f on difference */
static int compare_dests (const ProgSpec *ps, const RunCfg *cfg, const RunSetup *rs, int X, int Y, Failure *f, int use_taint)
{
  int k, j;
  for (k = 0; k < rs->nap; k++) {
    const ArrPlace *a = &rs->ap[k];
    ArenaSlot *sx, *sy; int rows;
    if (!a->is_dest) continue;
    sx = slot_for (a, X, cfg->striped); sy = slot_for (a, Y, cfg->striped);
    rows = cfg->striped ? ARENA_ROWS : 1;
    for (j = 0; j < rows; j++) {
      const uint8_t *px = arena_data_rw (sx, j), *py = arena_data_rw (sy, j);
      size_t len = arena_data_len (sx), o;
      if (!memcmp (px, py, len)) continue;
      for (o = 0; o < len; o++) {
        long rel, row, el;
        if (px[o] == py[o]) continue;
        /* locate */
        if (cfg->striped) { row = j; rel = (long) o - a->off0; }
        else { rel = (long) o - a->off0; row = a->stride ? rel / a->stride : 0; if (row >= cfg->m) row = cfg->m - 1; if (row < 0) row = 0; rel -= row * a->stride; }
        el = rel >= 0 ? rel / a->esz : -1;
        if (el >= a->lo && el < a->hi && rel >= 0) {
          uint64_t vx = gen_rd (px + (o - (size_t) (rel % a->esz)), a->esz), vy = gen_rd (py + (o - (size_t) (rel % a->esz)), a->esz);
          if (use_taint && taint_buf && cfg->m > 0 && el < cfg->n && taint_buf[(size_t) row * cfg->n + el]) { o += a->esz - 1 - (size_t) (rel % a->esz); continue; }
          f->var = a->var; f->row = (int) row; f->elem = el; f->sub[0] = 0;
          if (use_taint) {
            /* float destination: classify the flush-to-zero boundary (one side +-0, the other +-smallest normal) per lane */
            int fs = 0, q2;
            for (q2 = 0; q2 < ps->ninsns; q2++) { int kk; for (kk = 0; kk < 2; kk++) if (gen_op (&ps->insns[q2])->dsz[kk] && ps->insns[q2].dest[kk] == a->var && (gen_op (&ps->insns[q2])->flags & RF_FLOAT_D)) fs = gen_op (&ps->insns[q2])->dsz[kk]; }
            if (fs) {
              int l, allb = 1, anyd = 0;
              for (l = 0; l < a->esz / fs; l++) {
                uint64_t x = (vx >> (8 * fs * l)) & ref_mask (fs), y = (vy >> (8 * fs * l)) & ref_mask (fs);
                uint64_t mn = fs == 4 ? 0x00800000ULL : 0x0010000000000000ULL, am = fs == 4 ? 0x7fffffffULL : 0x7fffffffffffffffULL;
                if (x == y) continue;
                if (fs == 4 ? (ref_isnan32 ((uint32_t) x) && ref_isnan32 ((uint32_t) y)) : (ref_isnan64 (x) && ref_isnan64 (y))) continue;   /* NaN class */
                anyd = 1;
                if (!((((x & am) == 0 && (y & am) == mn) || ((y & am) == 0 && (x & am) == mn)) && ((x ^ y) & ~am) == 0)) allb = 0;
              }
              if (anyd && allb) snprintf (f->sub, sizeof f->sub, "ftz-boundary");
              if (!anyd) { o += a->esz - 1 - (size_t) (rel % a->esz); continue; }   /* every differing lane is NaN on both sides */
            }
          }
          snprintf (f->what, sizeof f->what, "%s[row %ld][%ld]: %s=%#llx %s=%#llx", ps->vars[a->var].name, row, el,
              X == 0 ? "native" : X == 1 ? "emulated" : "reference", (unsigned long long) vx,
              Y == 0 ? "native" : Y == 1 ? "emulated" : "reference", (unsigned long long) vy);
          return 1;
        } else {
          /* difference outside the entitled elements: one copy wrote there */
          f->var = a->var; f->row = (int) row; f->elem = el;
          snprintf (f->what, sizeof f->what, "byte at offset %ld of row %ld of %s (outside elements [%ld,%ld)) differs: %#x vs %#x",
              rel, row, ps->vars[a->var].name, a->lo, a->hi, px[o], py[o]);
          return 2;
        }
      }
    }
  }
  return 0;
}

/* canary windows around entitled extents of copy c; returns 1 on damage */
static int check_canaries (const ProgSpec *ps, const RunCfg *cfg, const RunSetup *rs, int c, int full, Failure *f)
{
  int k, j;
  for (k = 0; k < rs->nap; k++) {
    const ArrPlace *a = &rs->ap[k];
    ArenaSlot *s;
    if (!a->is_dest && c != 0) continue;
    s = slot_for (a, a->is_dest ? c : 0, cfg->striped);
    for (j = 0; j < cfg->m; j++) {
      long b = cfg->striped ? a->off0 + a->lo * a->esz : a->off0 + (long) j * a->stride + a->lo * a->esz;
      long e = b + (a->hi - a->lo) * a->esz;
      long dl = (long) arena_data_len (s);
      long w0 = full ? 0 : (b - 256 < 0 ? 0 : b - 256), w1 = full ? dl : (e + 256 > dl ? dl : e + 256);
      long bad;
      int row = cfg->striped ? j : 0;
      /* the next/previous row's entitled bytes are not canaries in linear 2-D: clip to the gap */
      if (!cfg->striped && cfg->m > 1 && !full) {
        long pb = a->off0 + (long) (j - 1) * a->stride + a->hi * a->esz, nb = a->off0 + (long) (j + 1) * a->stride + a->lo * a->esz;
        if (j > 0 && w0 < pb) w0 = pb;
        if (j < cfg->m - 1 && w1 > nb) w1 = nb;
      }
      if (full && !cfg->striped) {
        /* check every gap: from end of row j to begin of row j+1, plus head and tail */
        long g0 = j == 0 ? 0 : -1;
        if (g0 == 0 && b > 0 && (bad = arena_check (s, row, 0, (size_t) b)) >= 0) goto damaged;
        { long nb = j < cfg->m - 1 ? a->off0 + (long) (j + 1) * a->stride + a->lo * a->esz : dl;
          if (nb > e && (bad = arena_check (s, row, (size_t) e, (size_t) (nb - e))) >= 0) goto damaged; }
        continue;
      }
      if (b > w0 && (bad = arena_check (s, row, (size_t) w0, (size_t) (b - w0))) >= 0) goto damaged;
      if (w1 > e && (bad = arena_check (s, row, (size_t) e, (size_t) (w1 - e))) >= 0) goto damaged;
      continue;
damaged:
      f->var = a->var; f->row = j;
      snprintf (f->sub, sizeof f->sub, "write-%s-%s", bad < b ? "before" : "after", a->is_dest ? "dest" : "src");
      snprintf (f->what, sizeof f->what, "canary byte at data offset %ld changed (%s entitled bytes [%ld,%ld) of row %d of %s)", bad,
          bad < b ? "before" : "after", b, e, j, ps->vars[a->var].name);
      return 1;
    }
  }
  return 0;
}

static void set_executor (OrcExecutor *ex, OrcProgram *p, const ProgSpec *ps, const RunIO *io)
{
  int i;
  memset (ex, 0, sizeof *ex);
  /* an executor is not necessarily fresh: generated wrappers use an uninitialised one on the stack, callers reuse them */
  ex->counter1 = ex->counter2 = ex->counter3 = 0x12345;
  { int k; for (k = 0; k < 4; k++) ex->accumulators[k] = 0x5a5a5a5a; }
  orc_executor_set_program (ex, p);
  orc_executor_set_n (ex, io->n);
  if (ps->is2d) orc_executor_set_m (ex, io->m);
  for (i = 0; i < ps->nvars; i++) {
    const PVar *v = &ps->vars[i];
    if (v->kind == VK_DEST || v->kind == VK_SRC) {
      ex->arrays[v->orcvar] = io->arr[i];
      if (ps->is2d) orc_executor_set_stride (ex, v->orcvar, io->stride[i]);
    } else if (v->kind == VK_PARAM) {
      if (v->size == 8) orc_executor_set_param_int64 (ex, v->orcvar, (orc_int64) io->param[i]);
      else orc_executor_set_param (ex, v->orcvar, (int) (uint32_t) io->param[i]);
    }
  }
}

static const uint64_t reg_seeds[6] = { 0x1111111111111111ULL, 0x2222222222222222ULL, 0x3333333333333333ULL,
  0x4444444444444444ULL, 0x5555555555555555ULL, 0x6666666666666666ULL };

/* Executes one configuration. Returns number of failures recorded into fl[] (max nfl). */
static int run_one (OrcProgram *p, ProgSpec *ps, const Tgt *tg, const RunCfg *cfg, Failure *fl, int nfl, int full_canary)
{
  RunSetup rs; VhTramp st; OrcExecutor exB; int nf = 0, i, accn;
  Failure f;
  if (!setup_run (ps, cfg, &rs)) return -1;
  fill_run (ps, cfg, &rs, want_ref);
  run_count++;
#define PUSH(K) do { f.kind = (K); if ((report_mask & (1u << (K))) && nf < nfl) fl[nf++] = f; } while (0)
  memset (&f, 0, sizeof f); f.var = -1;

  if (emu_only) goto emulation;
  /* --- native --- */
  set_executor (exA, p, ps, &rs.ioA);
  memset (&st, 0, sizeof st);
  memcpy (st.seed, reg_seeds, sizeof reg_seeds);
  st.mxcsr_in = cfg->mxcsr;
  arena_armed = 1;
  if (sigsetjmp (arena_jmp, 1) == 0) {
    watchdog (NATIVE_WATCHDOG_S);
    vh_tramp_call ((void (*)(void *)) p->code_exec, exA, &st);
    watchdog (0);
    arena_armed = 0;
  } else {
    watchdog (0);
    vh_tramp_reset ();
    fault_text (&f, &rs, cfg, ps, "native");
    if (!strcmp (f.sub, "hang")) hangs_seen++;
    PUSH (F_FAULT_NATIVE);
    restore_run (cfg, &rs, 1, want_ref);
    return nf;
  }
  f.c1 = exA->counter1; f.c2 = exA->counter2; f.c3 = exA->counter3;
  /* ABI */
  {
    char buf[300]; int bad = 0; buf[0] = 0;
    for (i = 0; i < 6; i++) if (st.out[i] != st.seed[i]) { bad = 1; snprintf (f.sub, sizeof f.sub, "%s", vh_tramp_regname[i]);
      snprintf (buf + strlen (buf), sizeof buf - strlen (buf), "%s %#llx->%#llx; ", vh_tramp_regname[i], (unsigned long long) st.seed[i], (unsigned long long) st.out[i]); }
    if (st.rsp_after != st.rsp_before) { bad = 1; snprintf (f.sub, sizeof f.sub, "rsp"); snprintf (buf + strlen (buf), sizeof buf - strlen (buf), "rsp %#llx->%#llx; ", (unsigned long long) st.rsp_before, (unsigned long long) st.rsp_after); }
    if (st.canary_bad) { bad = 1; snprintf (f.sub, sizeof f.sub, "stack"); snprintf (buf + strlen (buf), sizeof buf - strlen (buf), "%d caller stack words changed; ", (int) st.canary_bad); }
    /* MXCSR: control bits (rounding, FTZ, DAZ, masks) must be preserved; status flags (low 6 bits) may be set */
    if ((st.mxcsr_out & 0xffc0) != (st.mxcsr_in & 0xffc0)) { bad = 1; snprintf (f.sub, sizeof f.sub, "mxcsr"); snprintf (buf + strlen (buf), sizeof buf - strlen (buf), "MXCSR %#x->%#x; ", st.mxcsr_in, st.mxcsr_out); }
    if (st.rflags_out & 0x400) { bad = 1; snprintf (f.sub, sizeof f.sub, "df"); snprintf (buf + strlen (buf), sizeof buf - strlen (buf), "DF set; "); }
    { uint16_t tag; memcpy (&tag, st.fenv + 8, 2); if (tag != 0xffff) { bad = 1; snprintf (f.sub, sizeof f.sub, "x87tag"); snprintf (buf + strlen (buf), sizeof buf - strlen (buf), "x87/MMX tag word %#x (not empty); ", tag); } }
    if (bad) { snprintf (f.what, sizeof f.what, "after call: %s", buf); PUSH (F_ABI); f.sub[0] = 0; }
  }
emulation:
  /* --- emulation --- */
  set_executor (&exB, p, ps, &rs.ioB);
  arena_armed = 1;
  if (sigsetjmp (arena_jmp, 1) == 0) {
    /* same caller state as the native run: the emulator inherits the caller's rounding mode just as JIT code does */
    VhTramp st2; memset (&st2, 0, sizeof st2); memcpy (st2.seed, reg_seeds, sizeof reg_seeds); st2.mxcsr_in = cfg->mxcsr;
    vh_tramp_call ((void (*)(void *)) orc_executor_emulate, &exB, &st2);
    arena_armed = 0;
  } else {
    vh_tramp_reset ();
    fault_text (&f, &rs, cfg, ps, "emulation");
    PUSH (F_FAULT_EMU);
    restore_run (cfg, &rs, 1, want_ref);
    return nf;
  }
  /* --- reference --- */
  if (want_ref) {
    if (float_mode) {
      /* before the interpreter overwrites in-place destinations; in the caller's rounding mode, so that intermediate values
       * (and with them which lanes become NaN or hit the flush-to-zero boundary) are the ones the executions saw */
      unsigned old = __builtin_ia32_stmxcsr ();
      __builtin_ia32_ldmxcsr ((old & ~0x6000u) | ((unsigned) cfg->mxcsr & 0x6000u));
      compute_taint (ps, &rs.ioC);
      __builtin_ia32_ldmxcsr (old);
    }
    gen_interp (ps, &rs.ioC);
  }
  /* --- compare --- */
  if (!emu_only) {
    int r = compare_dests (ps, cfg, &rs, 0, 1, &f, float_mode);
    if (r == 1) PUSH (float_mode ? F_FLOAT : F_MISMATCH);
    else if (r == 2) {
      /* outside entitled bytes: decide who wrote by the pattern */
      Failure g; memset (&g, 0, sizeof g);
      if (check_canaries (ps, cfg, &rs, 0, 1, &g)) { g.c1 = f.c1; g.c2 = f.c2; g.c3 = f.c3; f = g; PUSH (F_CANARY_NATIVE); }
      else if (check_canaries (ps, cfg, &rs, 1, 1, &g)) { g.c1 = f.c1; g.c2 = f.c2; g.c3 = f.c3; f = g; PUSH (F_CANARY_EMU); }
    }
  }
  if (float_mode && want_ref && !emu_only) {
    if (check_nan_propagation (ps, cfg, &rs, 0, &f)) PUSH (F_NAN);
    else if (check_nan_propagation (ps, cfg, &rs, 1, &f)) PUSH (F_NAN);
  }
  accn = 0;
  for (i = 0; i < ps->nvars; i++) if (ps->vars[i].kind == VK_ACC) {
    if (!emu_only && (uint32_t) exA->accumulators[accn] != (uint32_t) exB.accumulators[accn]) {
      f.var = i; snprintf (f.what, sizeof f.what, "accumulator %s: native=%#x emulated=%#x", ps->vars[i].name, exA->accumulators[accn], exB.accumulators[accn]);
      PUSH (F_ACC);
    }
    if (want_ref && (uint32_t) exB.accumulators[accn] != rs.ioC.acc[accn]) {
      f.var = i; snprintf (f.what, sizeof f.what, "accumulator %s: emulated=%#x reference=%#x", ps->vars[i].name, exB.accumulators[accn], rs.ioC.acc[accn]);
      PUSH (F_REF_EMU);
    }
    accn++;
  }
  /* the reference computes in round-to-nearest: only comparable when the caller's rounding mode is RN */
  if (want_ref && (!float_mode || (cfg->mxcsr & 0x6000) == 0)) {
    int r = compare_dests (ps, cfg, &rs, 1, 2, &f, float_mode);
    if (r == 1) PUSH (ref_emu_flag >= 0 ? ref_emu_flag : float_mode ? F_FLOAT : F_REF_EMU);
  }
  /* canaries */
  if (nf == 0 || full_canary) {
    if (!emu_only && check_canaries (ps, cfg, &rs, 0, full_canary, &f)) PUSH (F_CANARY_NATIVE);
    else if (check_canaries (ps, cfg, &rs, 1, full_canary, &f)) PUSH (F_CANARY_EMU);
  }
  restore_run (cfg, &rs, nf > 0, want_ref);
#undef PUSH
  return nf;
}

#include "progs.h"

/* ------------------------------------------------------------------ case handling */
static unsigned mode_profile;
static int mode_placements;   /* bit mask of PL_* used */
static int mode_striped;
static const char *mode_prop;
static long N_single, N_pairs, N_random, N_special, N_regs;
static int dest_off_step;     /* 1: every dest misalignment; else sampled */

static int hints_ok (const ProgSpec *ps, int n)
{
  if (ps->const_n && n != ps->const_n) return 0;
  if (ps->n_mult && n % ps->n_mult) return 0;
  if (ps->n_min && n < ps->n_min) return 0;
  if (ps->n_max && n > ps->n_max) return 0;
  return 1;
}

static void cfg_json (VhBuf *b, const ProgSpec *ps, const Tgt *tg, const RunCfg *cfg, const Failure *f, long caseidx)
{
  int i, first = 1;
  vh_buf_printf (b, "{\"harness\":\"exec\",\"mode\":"); vh_buf_jstr (b, vh_args.mode);
  vh_buf_printf (b, ",\"seed\":%llu,\"case\":%ld,\"tier\":\"%s\",\"target\":\"%s\",\"flags\":%u,\"n\":%d,\"m\":%d,\"placement\":\"%s\",\"striped\":%d,\"mxcsr\":%u,\"cseed\":%llu,\"counters\":[%d,%d,%d],\"program\":",
      (unsigned long long) vh_args.seed, caseidx, vh_args.thorough ? "thorough" : "quick", tg->name, tg->flags, cfg->n, cfg->m,
      pl_name[cfg->placement], cfg->striped, cfg->mxcsr, (unsigned long long) cfg->cseed, f->c1, f->c2, f->c3);
  gen_to_json (ps, b);
  vh_buf_printf (b, ",\"params\":{");
  for (i = 0; i < ps->nvars; i++) if (ps->vars[i].kind == VK_PARAM) { vh_buf_printf (b, "%s\"%s\":\"%#llx\"", first ? "" : ",", ps->vars[i].name, (unsigned long long) param_val[i]); first = 0; }
  vh_buf_printf (b, "},\"offsets\":{"); first = 1;
  for (i = 0; i < ps->nvars; i++) if (ps->vars[i].kind == VK_DEST || ps->vars[i].kind == VK_SRC) { vh_buf_printf (b, "%s\"%s\":%d", first ? "" : ",", ps->vars[i].name, cfg->off[i]); first = 0; }
  vh_buf_printf (b, "}}");
}

/* signature from a (shrunk) program */
static void make_sig (char *sig, size_t cap, const ProgSpec *ps, const Tgt *tg, const Failure *f, const RunCfg *cfg)
{
  char ops[200] = ""; const char *names[GEN_MAX_INSNS]; int nn = 0, i, j, k;
  int srceq = 0, hasconst = 0, hasparam = 0, inplace = 0;
  for (i = 0; i < ps->ninsns; i++) {
    const PInsn *in = &ps->insns[i]; const RefOp *op = gen_op (in);
    static char nbuf[GEN_MAX_INSNS][24];
    if (op->ssz[1] && in->src[0] == in->src[1]) srceq = 1;
    for (k = 0; k < 4; k++) if (op->ssz[k]) { int kd = ps->vars[in->src[k]].kind; if (kd == VK_CONST) hasconst = 1; if (kd == VK_PARAM) hasparam = 1; if (kd == VK_DEST) inplace = 1; }
    if (!strncmp (op->name, "copy", 4) && ps->ninsns > 1) continue;   /* plumbing */
    snprintf (nbuf[i], sizeof nbuf[i], "%s%s", in->mult == 2 ? "x2." : in->mult == 4 ? "x4." : "", op->name);
    for (j = 0; j < nn; j++) if (!strcmp (names[j], nbuf[i])) break;
    if (j == nn) names[nn++] = nbuf[i];
  }
  for (i = 0; i < nn; i++) for (j = i + 1; j < nn; j++) if (strcmp (names[i], names[j]) > 0) { const char *t = names[i]; names[i] = names[j]; names[j] = t; }
  for (i = 0; i < nn && i < 4; i++) { if (i) strncat (ops, "+", sizeof ops - strlen (ops) - 1); strncat (ops, names[i], sizeof ops - strlen (ops) - 1); }
  if (nn > 4) strncat (ops, "+...", sizeof ops - strlen (ops) - 1);
  snprintf (sig, cap, "%s|%s|%s|%s%s%s%s%s%s%s", prop_of (f), fail_name[f->kind], tg->name, ops,
      f->sub[0] ? "|" : "", f->sub, srceq ? "|src1==src2" : "", hasconst ? "|const" : "", hasparam ? "|param" : "", inplace ? "|inplace" : "");
  if (ps->is2d) strncat (sig, "|2d", cap - strlen (sig) - 1);
  /* resampling loads: tag the input conditions known to matter */
  for (i = 0; i < ps->ninsns; i++) {
    const PInsn *in = &ps->insns[i]; const RefOp *op = gen_op (in);
    if (op->kind == RK_RESNEAR || op->kind == RK_RESLIN) {
      const PVar *bv = &ps->vars[in->src[1]];
      int64_t b = bv->kind == VK_CONST ? (int64_t) (int32_t) bv->value : (int64_t) (int32_t) param_val[in->src[1]];
      if (b >= 0x10000 || b < 0) { strncat (sig, "|resoff>=1", cap - strlen (sig) - 1); break; }
    }
  }
  for (i = 0; i < ps->ninsns; i++) {
    const RefOp *op = gen_op (&ps->insns[i]);
    if ((op->kind == RK_RESNEAR || op->kind == RK_RESLIN) && cfg->m > 1) { strncat (sig, "|rows>1", cap - strlen (sig) - 1); break; }
  }
}

static OrcProgram *compile_for (ProgSpec *ps, const Tgt *tg, OrcCompileResult *res)
{
  OrcProgram *p = gen_build (ps);
  *res = orc_program_compile_full (p, tg->t, tg->flags);
  return p;
}

/* does the program still fail (same failure kind) under this cfg? */
static int still_fails (ProgSpec *ps, const Tgt *tg, const RunCfg *cfg, int kind, Failure *out)
{
  OrcCompileResult res; OrcProgram *p; Failure fl[8]; int nf, i, hit = 0;
  if (!gen_valid (ps)) return 0;
  p = compile_for (ps, tg, &res);
  if (!ORC_COMPILE_RESULT_IS_SUCCESSFUL (res) || !p->code_exec || p->code_exec == (void *) orc_executor_emulate) { orc_program_free (p); return 0; }
  nf = run_one (p, ps, tg, cfg, fl, 8, 1);
  for (i = 0; i < nf; i++) if (fl[i].kind == kind) { hit = 1; if (out) *out = fl[i]; break; }
  if (vh_args.verbose > 1 && hit) fprintf (stderr, "=== candidate fails (n=%d) acc0=%#x\n%s\n", cfg->n, exA->accumulators[0], orc_program_get_asm_code (p));
  orc_program_free (p);
  return hit;
}

/* compaction that also remaps the per-variable run data */
static void compact_with_remap (ProgSpec *ps, RunCfg *cfg)
{
  int used[GEN_MAX_VARS] = { 0 }, i, k, n = 0;
  uint64_t pv[GEN_MAX_VARS]; int off[GEN_MAX_VARS], gap[GEN_MAX_VARS];
  for (i = 0; i < ps->ninsns; i++) {
    for (k = 0; k < 2; k++) if (ps->insns[i].dest[k] >= 0) used[ps->insns[i].dest[k]] = 1;
    for (k = 0; k < 4; k++) if (ps->insns[i].src[k] >= 0) used[ps->insns[i].src[k]] = 1;
  }
  for (i = 0; i < ps->nvars; i++) if (used[i]) { pv[n] = param_val[i]; off[n] = cfg->off[i]; gap[n] = cfg->gap[i]; n++; }
  gen_compact_vars (ps);
  memset (cfg->off, 0, sizeof cfg->off); memset (cfg->gap, 0, sizeof cfg->gap);
  for (i = 0; i < n; i++) { param_val[i] = pv[i]; cfg->off[i] = off[i]; cfg->gap[i] = gap[i]; }
}

static long failures_reported, other_reported;
#define MAX_FAILURES_PER_SHARD 150   /* a tree this broken is decided; stop exploring so a slow failure mode cannot stall the shard */

static void shrink_and_report (ProgSpec *ps0, const Tgt *tg, const RunCfg *cfg0, const Failure *f0, long caseidx)
{
  ProgSpec ps = *ps0, cand; RunCfg cfg = *cfg0, ccfg; Failure f = *f0, g;
  int changed = 1, q, k, pass = 0;
  char sig[400]; VhBuf b = { 0 };
  uint64_t saved_params[GEN_MAX_VARS], cparams[GEN_MAX_VARS];
  memcpy (saved_params, param_val, sizeof saved_params);
  /* failures of the property being decided count towards the cap; observations that belong to another property are passed on
   * (unshrunk after the first 40) without ending this property's exploration */
  if (!strcmp (prop_of (&f), mode_prop)) { failures_reported++; if (failures_reported > 40) pass = 8; }
  else { other_reported++; if (other_reported > 40) pass = 8; }
  if (!strcmp (f.sub, "hang")) pass = 8;   /* every shrinking step of a hang would cost another watchdog period */
  while (changed && pass++ < 8) {
    changed = 0;
    for (q = ps.ninsns - 1; q >= 0; q--) {
      cand = ps;
      if (!gen_delete_insn (&cand, q)) continue;
      if (still_fails (&cand, tg, &cfg, f.kind, &g)) { ps = cand; f = g; changed = 1; }
    }
    /* cut dependencies: a temporary operand becomes a fresh source array */
    for (q = 0; q < ps.ninsns; q++) for (k = 0; k < 4; k++) {
      const RefOp *op = gen_op (&ps.insns[q]); int v;
      if (!op->ssz[k] || ps.insns[q].src[k] < 0 || ps.vars[ps.insns[q].src[k]].kind != VK_TEMP) continue;
      if (op->kind == RK_STORE) continue;
      cand = ps;
      v = gen_add_var (&cand, VK_SRC, ps.vars[ps.insns[q].src[k]].size);
      if (v < 0) continue;
      { int kk, old = cand.insns[q].src[k]; for (kk = 0; kk < 4; kk++) if (cand.insns[q].src[kk] == old) cand.insns[q].src[kk] = v; }
      cfg.off[v] = 0; cfg.gap[v] = 0;
      if (gen_valid (&cand) && still_fails (&cand, tg, &cfg, f.kind, &g)) { ps = cand; f = g; changed = 1; }
    }
    /* drop unused variables */
    memcpy (cparams, param_val, sizeof cparams);
    cand = ps; ccfg = cfg;
    compact_with_remap (&cand, &ccfg);
    if (cand.nvars != ps.nvars) {
      if (still_fails (&cand, tg, &ccfg, f.kind, &g)) { ps = cand; cfg = ccfg; f = g; changed = 1; }
      else memcpy (param_val, cparams, sizeof cparams);
    } else memcpy (param_val, cparams, sizeof cparams);
  }
  /* replace producers that merely keep a value alive by copies */
  for (q = 0; q < ps.ninsns; q++) {
    const RefOp *op = gen_op (&ps.insns[q]);
    if (op->kind == RK_ELEM && !op->ssz[1] && !op->dsz[1] && op->dsz[0] == op->ssz[0] && strncmp (op->name, "copy", 4) && ps.ninsns > 1) {
      cand = ps; cand.insns[q].op = gen_op_index (gen_copy_name (op->dsz[0]));
      if (cand.insns[q].op >= 0 && still_fails (&cand, tg, &cfg, f.kind, &g)) { ps = cand; f = g; }
    }
  }
  /* 2-D -> 1-D */
  if (ps.is2d && cfg.m == 1) { cand = ps; cand.is2d = 0; cand.const_m = 0; if (still_fails (&cand, tg, &cfg, f.kind, &g)) { ps = cand; f = g; } }
  /* drop hints */
  { cand = ps; cand.const_n = cand.n_mult = cand.n_min = cand.n_max = 0; for (q = 0; q < cand.nvars; q++) cand.vars[q].align = 0;
    if (memcmp (&cand, &ps, sizeof ps) && still_fails (&cand, tg, &cfg, f.kind, &g)) { ps = cand; f = g; } }
  /* default offsets */
  { ccfg = cfg; memset (ccfg.off, 0, sizeof ccfg.off); memset (ccfg.gap, 0, sizeof ccfg.gap); if (still_fails (&ps, tg, &ccfg, f.kind, &g)) { cfg = ccfg; f = g; } }
  /* smaller n */
  if (!ps.const_n) {
    int n;
    for (n = 0; n < cfg.n; n++) { RunCfg c2 = cfg; c2.n = n; if (hints_ok (&ps, n) && still_fails (&ps, tg, &c2, f.kind, &g)) { cfg = c2; f = g; break; } }
  }
  if (cfg.m > 1) { RunCfg c2 = cfg; c2.m = 1; if (still_fails (&ps, tg, &c2, f.kind, &g)) { cfg = c2; f = g; } }
  /* resampling loads: try an initial offset below one element */
  for (q = 0; q < ps.ninsns; q++) {
    const RefOp *op = gen_op (&ps.insns[q]);
    if ((op->kind == RK_RESNEAR || op->kind == RK_RESLIN) && ps.vars[ps.insns[q].src[1]].kind == VK_PARAM) {
      int v = ps.insns[q].src[1]; uint64_t old = param_val[v];
      param_val[v] = old & 0xffff;
      if (param_val[v] == old || !still_fails (&ps, tg, &cfg, f.kind, &g)) param_val[v] = old; else f = g;
    }
  }
  make_sig (sig, sizeof sig, &ps, tg, &f, &cfg);
  cfg_json (&b, &ps, tg, &cfg, &f, caseidx);
  if (!strcmp (vh_args.mode, "c11x") && (f.kind == F_MISMATCH || f.kind == F_ACC)) {
    /* same monitor, reported under C11 with the flag set in the signature */
    char sig2[480]; snprintf (sig2, sizeof sig2, "C11|exec|flags=%#x|%s", tg->flags, sig);
    vh_violation ("C11", sig2, f.what, b.p);
  } else
  vh_violation (prop_of (&f), sig, f.what, b.p);
  free (b.p);
  memcpy (param_val, saved_params, sizeof saved_params);
}

static const int n_large[] = { 127, 128, 129, 130, 131, 255, 256, 257 };
static const uint32_t mxcsr_set[] = { 0x1f80, 0x1f80 | 0x6000 /* RZ */, 0x1f80 | 0x4000 /* RU */, 0x1f80 | 0x8000 /* FTZ */, 0x1f80 | 0x0040 /* DAZ */,
  0x1f80 | 0x2000 /* RD */, 0x1f80 & ~0x0800 /* precision exception unmasked: only raised by inexact ops -> use sparingly */ };

static void run_program (ProgSpec *ps, long caseidx, VhRng *r, int is_single)
{
  int ti;
  for (ti = 0; ti < n_tgts; ti++) {
    const Tgt *tg = &tgts[ti];
    OrcCompileResult res; OrcProgram *p;
    int nlist[160], nn = 0, i, ci, reported = 0;
    int W = tg->vecbytes;
    static int did_emu_alone; if (ti == 0) did_emu_alone = 0;
    p = compile_for (ps, tg, &res);
    vh_countf (1, "compile.%s.%s", tg->name, ORC_COMPILE_RESULT_IS_SUCCESSFUL (res) ? "ok" : ORC_COMPILE_RESULT_IS_FATAL (res) ? "fatal" : "nonfatal");
    emu_only = 0;
    if (!ORC_COMPILE_RESULT_IS_SUCCESSFUL (res) || !p->code_exec || p->code_exec == (void *) orc_executor_emulate) {
      /* no native code on this target (no rule, register overflow): the emulator alone still has to honour the property */
      if (mode_emu_alone && !did_emu_alone && !ORC_COMPILE_RESULT_IS_FATAL (res) && p->orccode) { emu_only = 1; did_emu_alone = 1; vh_count ("cases.emulated_without_native_code", 1); }
      else { orc_program_free (p); continue; }
    }
    if (!emu_only) for (i = 0; i < ps->ninsns; i++) {
      const PInsn *in = &ps->insns[i];
      if (vh_set_addf ("native_ops", "%s:%s:x%d", tg->name, gen_op (in)->name, in->mult)) { }
    }
    /* n grid */
    if (is_single || vh_args.thorough) { for (i = 0; i <= 2 * W + 3; i++) nlist[nn++] = i; }
    else { nlist[nn++] = 0; nlist[nn++] = 1; for (i = 0; i < 10; i++) nlist[nn++] = 2 + vh_randn (r, 2 * W + 2); }
    if (is_single) { for (i = 0; i < (int) (sizeof n_large / sizeof n_large[0]); i++) nlist[nn++] = n_large[i]; }
    else { nlist[nn++] = n_large[vh_randn (r, 8)]; nlist[nn++] = 63 + vh_randn (r, 5); }
    nlist[nn++] = 1000 + vh_randn (r, 3000);
    for (ci = 0; ci < nn && !reported; ci++) {
      int n = nlist[ci], offs, noffs, pl;
      if (ps->const_n) { if (ci > 0) break; n = ps->const_n; }
      if (!hints_ok (ps, n)) {
        /* adjust to the hints */
        if (ps->n_mult) n = n / ps->n_mult * ps->n_mult;
        if (ps->n_min && n < ps->n_min) n = ps->n_min + (ps->n_mult ? (ps->n_mult - ps->n_min % ps->n_mult) % ps->n_mult : 0);
        if (ps->n_max && n > ps->n_max) n = ps->n_max / (ps->n_mult ? ps->n_mult : 1) * (ps->n_mult ? ps->n_mult : 1);
        if (!hints_ok (ps, n)) continue;
      }
      noffs = (is_single && n <= 2 * W + 3) ? (vh_args.thorough ? 32 : 6) : 1;
      for (pl = 0; pl < 3 && !reported; pl++) {
        if (!(mode_placements & (1 << pl))) continue;
        for (offs = 0; offs < (pl == PL_MID ? noffs : 1) && !reported; offs++) {
          RunCfg cfg; Failure fl[8]; int nf, k, v;
          memset (&cfg, 0, sizeof cfg);
          cfg.n = n; cfg.placement = pl;
          cfg.m = ps->is2d ? (ps->const_m ? ps->const_m : 1 + (int) vh_randn (r, 4)) : 1;
          if (ps->is2d && !ps->const_m && vh_chance (r, 1, 12)) cfg.m = 0;       /* no rows: nothing may be touched */
          cfg.striped = (ps->is2d && pl != PL_MID && mode_striped && n * 8 <= ARENA_PAGE) ? (int) vh_randn (r, 2) : 0;
          cfg.mxcsr = (mode_profile & GP_FLOAT) || !strcmp (vh_args.mode, "c10") ? mxcsr_set[vh_randn (r, 6)] : 0x1f80;
          /* the emulator's meaning is judged in the default floating-point environment (what a caller's FTZ/DAZ/rounding bits do to it is C18's question) */
          if (!strcmp (vh_args.mode, "c02f")) cfg.mxcsr = 0x1f80;
          cfg.cseed = vh_rand (r);
          for (v = 0; v < ps->nvars; v++) {
            int al = ps->vars[v].align > ps->vars[v].size ? ps->vars[v].align : ps->vars[v].size;
            int o = (int) vh_randn (r, 64);
            if (ps->vars[v].kind == VK_DEST && is_single && noffs == 32) o = offs;
            else if (ps->vars[v].kind == VK_DEST && is_single) o = offs == 0 ? 0 : (int) vh_randn (r, 32);
            cfg.off[v] = o / al * al;
            cfg.gap[v] = (int) vh_randn (r, 3) == 0 ? 0 : (int) vh_randn (r, 80);
          }
          choose_params (ps, r, n);
          nf = run_one (p, ps, tg, &cfg, fl, 8, (run_count & 31) == 0);
          if (nf < 0) { vh_count ("runs.skipped_nofit", 1); continue; }
          vh_countf (1, "runs.%s", tg->name);
          vh_countf (1, "runs.placement.%s%s", pl_name[pl], cfg.striped ? ".striped" : "");
          if (ps->is2d) vh_count ("runs.2d", 1);
          vh_count ("elements", (uint64_t) n * cfg.m);
          if (nf == 0 && !emu_only) {
            int reg = (exA->counter1 > 0) | ((exA->counter2 > 0) << 1) | ((exA->counter3 > 0) << 2);
            vh_set_addf ("regions", "%s:%d", tg->name, reg);
            if (is_single) vh_set_addf ("single_regions", "%s:%s:%d", tg->name, gen_op (&ps->insns[0])->name, reg);
            vh_set_addf ("n_values", "%d", n);
            vh_set_addf ("dest_align", "%d", cfg.off[0] & 31);
          }
          for (k = 0; k < nf; k++) {
            vh_countf (1, "failures.%s.%s", fail_prop[fl[k].kind], fail_name[fl[k].kind]);
            shrink_and_report (ps, tg, &cfg, &fl[k], caseidx);
            reported = 1;
          }
        }
      }
    }
    orc_program_free (p);
  }
}

/* ------------------------------------------------------------------ main */
static void sample_program (const ProgSpec *ps, long caseidx)
{
  VhBuf b = { 0 };
  vh_buf_printf (&b, "{\"case\":%ld,\"program\":", caseidx);
  gen_to_json (ps, &b);
  vh_buf_printf (&b, "}");
  vh_sample ("program", b.p);
  free (b.p);
}

int main (int argc, char **argv)
{
  long c, total, nsamples = 0;
  const char *mode;
  vh_parse_args (argc, argv);
  mode = vh_args.mode;
  orc_init ();
  add_target ("sse", 16); add_target ("avx", 32); add_target ("mmx", 8);
  if (vh_args.aux) {
    /* restrict to one target */
    int i, k = 0; for (i = 0; i < n_tgts; i++) if (!strcmp (tgts[i].name, vh_args.aux)) tgts[k++] = tgts[i];
    n_tgts = k;
  }
  slots_init ();
  vh_count ("arena.slots_across_4GiB", (uint64_t) arena_straddled);
  exA = (OrcExecutor *) (arena_data_rw (&slotEx, 0) + ARENA_DATA_BYTES - ((sizeof (OrcExecutor) + 7) & ~7UL));   /* flush against the guard page, aligned as a caller's OrcExecutor object is (8) */
  arena_install_handlers ();
  finite_only = 1;

  if (!strcmp (mode, "c01")) {
    report_mask = (1u << F_MISMATCH) | (1u << F_ACC) | (1u << F_FAULT_NATIVE) | (1u << F_FAULT_EMU) | (1u << F_CANARY_NATIVE) | (1u << F_CANARY_EMU) | (1u << F_ABI);
    mode_prop = "C01"; mode_profile = GP_INT | GP_ACC | GP_2D | GP_HINTS | GP_EXPLICIT_LS; mode_placements = 1 << PL_MID; want_ref = 0;
    N_single = -1; N_pairs = -1; N_random = vh_args.thorough ? 400000 : 40000; N_special = vh_args.thorough ? 40000 : 4000; N_regs = vh_args.thorough ? 60000 : 6000;
  } else if (!strcmp (mode, "c03")) {
    report_mask = (1u << F_FAULT_NATIVE) | (1u << F_FAULT_EMU) | (1u << F_CANARY_NATIVE) | (1u << F_CANARY_EMU) | (1u << F_SRC_CHANGED) | (1u << F_ABI);
    mode_prop = "C03"; mode_profile = GP_INT | GP_FLOAT | GP_ACC | GP_2D | GP_HINTS | GP_EXPLICIT_LS | GP_SPECIAL; mode_placements = (1 << PL_TRAIL) | (1 << PL_LEAD); mode_striped = 1; want_ref = 0; mode_emu_alone = 1;
    N_single = -1; N_pairs = vh_args.thorough ? -1 : 4000; N_random = vh_args.thorough ? 200000 : 20000; N_special = vh_args.thorough ? 60000 : 6000; N_regs = vh_args.thorough ? 40000 : 4000;
  } else if (!strcmp (mode, "c10")) {
    report_mask = (1u << F_FAULT_NATIVE) | (1u << F_CANARY_NATIVE) | (1u << F_ABI);
    mode_prop = "C10"; mode_profile = GP_INT | GP_FLOAT | GP_ACC | GP_2D | GP_HINTS | GP_EXPLICIT_LS | GP_SPECIAL; mode_placements = (1 << PL_MID) | (1 << PL_TRAIL); want_ref = 0;
    N_single = -1; N_pairs = vh_args.thorough ? -1 : 3000; N_random = vh_args.thorough ? 150000 : 15000; N_special = vh_args.thorough ? 20000 : 2000; N_regs = vh_args.thorough ? 80000 : 8000;
  } else if (!strcmp (mode, "c18")) {
    report_mask = (1u << F_FLOAT) | (1u << F_NAN) | (1u << F_MASK) | (1u << F_DENORMAL) | (1u << F_FAULT_NATIVE) | (1u << F_ABI);
    mode_prop = "C18"; mode_profile = GP_FLOAT | GP_HINTS | GP_2D; mode_placements = (1 << PL_MID) | (1 << PL_TRAIL); want_ref = 1; float_mode = 1; finite_only = 0;
    N_single = -1; N_pairs = -1; N_random = vh_args.thorough ? 250000 : 25000; N_special = 0;
    {
      /* the float rules have fall-backs for CPUs without the newer extensions: the sse target is also exercised with SSE2 only and with
       * everything up to SSSE3 (same target name: the flags are part of the witness) */
      OrcTarget *sse = orc_target_get_by_name ("sse");
      if (sse && n_tgts + 2 <= 16) {
        unsigned sd = orc_target_get_default_flags (sse), sall = ORC_TARGET_SSE_SSE2 | ORC_TARGET_SSE_SSE3 | ORC_TARGET_SSE_SSSE3 | ORC_TARGET_SSE_SSE4_1 | ORC_TARGET_SSE_SSE4_2;
        tgts[n_tgts].name = "sse"; tgts[n_tgts].t = sse; tgts[n_tgts].flags = (sd & ~sall) | ORC_TARGET_SSE_SSE2; tgts[n_tgts].vecbytes = 16; n_tgts++;
        tgts[n_tgts].name = "sse"; tgts[n_tgts].t = sse; tgts[n_tgts].flags = (sd & ~sall) | ORC_TARGET_SSE_SSE2 | ORC_TARGET_SSE_SSE3 | ORC_TARGET_SSE_SSSE3; tgts[n_tgts].vecbytes = 16; n_tgts++;
      }
    }
  } else if (!strcmp (mode, "c02f")) {
    /* float/double opcodes: emulation vs the reference (the native comparison of the same runs is C18's and is not reported here) */
    report_mask = (1u << F_REF_EMU) | (1u << F_FAULT_EMU) | (1u << F_CANARY_EMU);
    mode_prop = "C02"; mode_profile = GP_FLOAT | GP_HINTS | GP_2D; mode_placements = 1 << PL_MID; want_ref = 1; float_mode = 1; finite_only = 0; ref_emu_flag = F_REF_EMU; mode_emu_alone = 1;
    N_single = -1; N_pairs = vh_args.thorough ? -1 : 3000; N_random = vh_args.thorough ? 80000 : 8000; N_special = 0;
  } else if (!strcmp (mode, "c02x")) {
    /* multi-instruction programs: emulation vs reference interpreter */
    report_mask = (1u << F_REF_EMU) | (1u << F_FAULT_EMU) | (1u << F_CANARY_EMU);
    mode_prop = "C02"; mode_profile = GP_INT | GP_ACC | GP_2D | GP_EXPLICIT_LS | GP_SPECIAL; mode_placements = 1 << PL_MID; want_ref = 1; mode_emu_alone = 1;
    N_single = -1; N_pairs = vh_args.thorough ? -1 : 6000; N_random = vh_args.thorough ? 250000 : 25000; N_special = vh_args.thorough ? 40000 : 4000;
  } else if (!strcmp (mode, "c11x")) {
    /* every feature-flag subset of sse and mmx (64-bit): single-opcode programs must compute the same results */
    static char names[64][24]; int k = 0, i; unsigned m;
    OrcTarget *sse = orc_target_get_by_name ("sse"), *mmx = orc_target_get_by_name ("mmx");
    unsigned sd = orc_target_get_default_flags (sse), md = orc_target_get_default_flags (mmx);
    unsigned sall = ORC_TARGET_SSE_SSE2 | ORC_TARGET_SSE_SSE3 | ORC_TARGET_SSE_SSSE3 | ORC_TARGET_SSE_SSE4_1 | ORC_TARGET_SSE_SSE4_2;
    unsigned mall = ORC_TARGET_MMX_MMXEXT | ORC_TARGET_MMX_SSSE3 | ORC_TARGET_MMX_SSE4_1 | ORC_TARGET_MMX_3DNOW | ORC_TARGET_MMX_3DNOWEXT;
    n_tgts = 0;
    for (m = 0; m < 16 && n_tgts < 8; m++) {
      unsigned f = ORC_TARGET_SSE_SSE2 | ((m & 1) ? ORC_TARGET_SSE_SSE3 : 0) | ((m & 2) ? ORC_TARGET_SSE_SSSE3 : 0) | ((m & 4) ? ORC_TARGET_SSE_SSE4_1 : 0) | ((m & 8) ? ORC_TARGET_SSE_SSE4_2 : 0);
      /* 7 of the 16 subsets per shard-independent rotation keeps the run short: pick by seed */
      if (((m + vh_args.seed) % 16) >= 7 && m != 0 && m != 15) continue;
      snprintf (names[k], sizeof names[k], "sse"); tgts[n_tgts].name = names[k++]; tgts[n_tgts].t = sse; tgts[n_tgts].flags = (sd & ~sall) | f; tgts[n_tgts].vecbytes = 16; n_tgts++;
    }
    for (m = 0; m < 8 && n_tgts < 13; m++) {
      unsigned f = ORC_TARGET_MMX_MMX | ((m & 1) ? ORC_TARGET_MMX_MMXEXT : 0) | ((m & 2) ? ORC_TARGET_MMX_SSSE3 : 0) | ((m & 4) ? ORC_TARGET_MMX_SSE4_1 : 0);
      if (m != 0 && m != 1 && m != 7 && ((m + vh_args.seed) % 8) >= 2) continue;
      snprintf (names[k], sizeof names[k], "mmx"); tgts[n_tgts].name = names[k++]; tgts[n_tgts].t = mmx; tgts[n_tgts].flags = (md & ~mall) | f; tgts[n_tgts].vecbytes = 8; n_tgts++;
      if (n_tgts >= 13) break;
    }
    (void) i;
    report_mask = (1u << F_MISMATCH) | (1u << F_ACC) | (1u << F_FAULT_NATIVE) | (1u << F_CANARY_NATIVE) | (1u << F_ABI);
    mode_prop = "C11"; mode_profile = GP_INT | GP_ACC | GP_HINTS; mode_placements = 1 << PL_MID; want_ref = 0;
    N_single = -1; N_pairs = vh_args.thorough ? -1 : 1500; N_random = vh_args.thorough ? 60000 : 6000; N_special = 0;
  } else { fprintf (stderr, "unknown mode %s\n", mode); return 2; }
  if (vh_args.limit > 0) { N_random = vh_args.limit; }

  enumerate_single (mode_profile);
  enumerate_pairs (mode_profile & (GP_INT | GP_FLOAT | GP_ACC));
  if (N_single < 0) N_single = n_single;
  if (N_pairs < 0 || N_pairs > n_pairs) N_pairs = n_pairs;
  total = N_single + N_pairs + N_random + N_special + N_regs;
  vh_count ("cases.total", 0);

  for (c = 0; c < total; c++) {
    ProgSpec ps; VhRng r; char desc[120]; int ok = 1, is_single = 0;
    if (!vh_my_case (c)) continue;
    vh_rng_init (&r, vh_args.seed, (uint64_t) c);
    if (c < N_single) {
      build_single (&ps, &single_forms[c], &r); is_single = 1;
      snprintf (desc, sizeof desc, "single %s", ps.name);
    } else if (c < N_single + N_pairs) {
      long k = c - N_single;
      /* quick tier: seed-dependent sample of the pair list */
      long idx = (N_pairs == n_pairs) ? k : (long) ((vh_args.seed * 2654435761ULL + (uint64_t) k * 7919) % (uint64_t) n_pairs);
      build_pair (&ps, &pair_forms[idx], &r);
      snprintf (desc, sizeof desc, "pair %s", ps.name);
    } else if (c < N_single + N_pairs + N_random) {
      char nm[32]; snprintf (nm, sizeof nm, "rand_%ld", c);
      gen_init (&ps, nm);
      ok = gen_random (&ps, &r, mode_profile & ~GP_SPECIAL, 2 + (int) vh_randn (&r, 13));
      snprintf (desc, sizeof desc, "random %s", nm);
    } else if (c < N_single + N_pairs + N_random + N_special && (c & 7) == 5 && (mode_profile & GP_ACC)) {
      /* all four accumulators in use (the last slot of the executor, the fourth register to clear and reduce) */
      static const char *accops[] = { "accw", "accl", "accsadubl" }; int k;
      char nm[32]; snprintf (nm, sizeof nm, "acc4_%ld", c);
      gen_init (&ps, nm);
      for (k = 0; k < 4; k++) {
        int oi = gen_op_index (accops[vh_randn (&r, 3)]); const RefOp *op = &ref_ops[oi]; PInsn *in = gen_add_insn (&ps, oi, 1); int q;
        in->dest[0] = gen_add_var (&ps, VK_ACC, op->dsz[0]);
        for (q = 0; q < 4; q++) if (op->ssz[q]) in->src[q] = gen_add_var (&ps, VK_SRC, op->ssz[q]);
      }
      if (vh_chance (&r, 1, 2)) { int oi = gen_op_index ("copyw"); PInsn *in = gen_add_insn (&ps, oi, 1); in->dest[0] = gen_add_var (&ps, VK_DEST, 2); in->src[0] = gen_add_var (&ps, VK_SRC, 2); }
      if ((mode_profile & GP_2D) && vh_chance (&r, 1, 3)) ps.is2d = 1;
      ok = 1;
      snprintf (desc, sizeof desc, "acc4 %s", nm);
    } else if (c < N_single + N_pairs + N_random + N_special) {
      char nm[32]; snprintf (nm, sizeof nm, "spec_%ld", c);
      gen_init (&ps, nm);
      ok = gen_random (&ps, &r, (mode_profile | GP_SPECIAL) & ~GP_FLOAT, 1 + (int) vh_randn (&r, 6));
      snprintf (desc, sizeof desc, "special %s", nm);
    } else {
      /* regs: many arrays and temps to force callee-saved registers */
      char nm[32]; snprintf (nm, sizeof nm, "regs_%ld", c);
      gen_init (&ps, nm);
      ok = gen_random (&ps, &r, ((mode_profile & ~(GP_SPECIAL | GP_FLOAT)) | GP_2D) | ((c % 3) == 0 ? GP_SPECIAL : 0), 10 + (int) vh_randn (&r, 14));
      snprintf (desc, sizeof desc, "regs %s", nm);
    }
    vh_progress (c, desc);
    vh_count ("cases.generated", 1);
    if (!ok || !gen_valid (&ps)) { vh_count ("cases.invalid_spec", 1); continue; }
    vh_count ("cases.run", 1);
    if (nsamples < 3 && (c % 97) == (long) (vh_args.seed % 97)) { sample_program (&ps, c); nsamples++; }
    run_program (&ps, c, &r, is_single);
    if (failures_reported >= MAX_FAILURES_PER_SHARD || hangs_seen >= 6) { vh_count ("shard.stopped_after_failures", 1); break; }
    if ((c & 63) == 0) vh_flush ();
  }
  {
    char t[64]; snprintf (t, sizeof t, "%ld", total);
    vh_set_addf ("total_cases", "%s", t);
  }
  vh_count ("runs.total", run_count);
  vh_done ();
  return 0;
}
