/* cpu.c - C19: one process = one simulated CPU (ORC_VERIF_CPUID masks) and one
 * override setting.  Prints one JSON line describing what the library decided
 * and what the default compile path produced. */
#define _GNU_SOURCE
#include <orc/orc.h>
#include <stdio.h>
#include <stdlib.h>
#include <string.h>
#include <signal.h>
#include <setjmp.h>

static sigjmp_buf jb;
static void on_sig (int s) { siglongjmp (jb, s); }

int main (int argc, char **argv)
{
  const char *names[] = { "mmx", "sse", "avx", "c", "c64x-c", "neon", "mips", "altivec" };
  OrcTarget *def; unsigned i; OrcProgram *p; OrcCompileResult res; int sig;
  const char *codefile = argc > 1 ? argv[1] : NULL;
  orc_init ();
  def = orc_target_get_default ();
  printf ("{\"default\":\"%s\",\"targets\":{", def ? def->name : "(none)");
  for (i = 0; i < sizeof names / sizeof names[0]; i++) {
    OrcTarget *t = orc_target_get_by_name (names[i]);
    printf ("%s\"%s\":{\"found\":%d,\"exec\":%d,\"flags\":%u,\"name_matches\":%d}", i ? "," : "", names[i], t != NULL, t ? t->executable : 0,
        t ? orc_target_get_default_flags (t) : 0, t ? !strcmp (t->name, names[i]) : 0);
  }
  printf ("},");
  /* default compile path */
  p = orc_program_new ();
  orc_program_set_name (p, "cpu_probe");
  { int d = orc_program_add_destination (p, 2, "d1"), s1 = orc_program_add_source (p, 2, "s1"), s2 = orc_program_add_source (p, 2, "s2");
    orc_program_append (p, "addssw", d, s1, s2);
    res = orc_program_compile (p);
    printf ("\"compile_result\":%d,\"native\":%d,", res, ORC_COMPILE_RESULT_IS_SUCCESSFUL (res) && p->code_exec && p->code_exec != (void *) orc_executor_emulate);
    if (ORC_COMPILE_RESULT_IS_SUCCESSFUL (res) && p->orccode && p->orccode->code && codefile) {
      FILE *f = fopen (codefile, "wb"); if (f) { fwrite (p->orccode->code, 1, p->orccode->code_size, f); fclose (f); }
      printf ("\"code_size\":%d,", p->orccode->code_size);
    }
    {
      static short a[64], b[64], dn[64], de[64]; int k; OrcExecutor *ex = orc_executor_new (p);
      for (k = 0; k < 64; k++) { a[k] = (short) (k * 1000 - 20000); b[k] = (short) (k * 777); dn[k] = de[k] = 0; }
      orc_executor_set_n (ex, 37); orc_executor_set_array (ex, s1, a); orc_executor_set_array (ex, s2, b);
      signal (SIGILL, on_sig); signal (SIGSEGV, on_sig); signal (SIGBUS, on_sig);
      sig = sigsetjmp (jb, 1);
      if (sig == 0) {
        orc_executor_set_array (ex, d, dn); orc_executor_run (ex);
        orc_executor_set_array (ex, d, de); orc_executor_emulate (ex);
        printf ("\"run\":\"ok\",\"same\":%d", !memcmp (dn, de, sizeof dn));
      } else printf ("\"run\":\"signal %d\",\"same\":0", sig);
    }
  }
  printf ("}\n");
  return 0;
}
