/* emu.c - C02: emulation of every sys opcode against the reference semantics
 * (ref.c) over exhaustive / boundary-crossed operand values, all positions
 * within the 16-element emulation chunks, x1/x2/x4, array/const/param second
 * operand, accumulators summed over long arrays.
 *
 * Also checks the opcode table itself (sizes and flags of every opcode)
 * against the reference table.
 */
#define _GNU_SOURCE
#include <orc/orc.h>
#include "vh.h"
#include "ref.h"
#include "gen.h"
#include "progs.h"

static OrcTarget *ctarget;

static uint8_t *A, *B, *D0, *D1;
static size_t cap_elems;

static void ensure (size_t n)
{
  if (n <= cap_elems) return;
  cap_elems = n + 64;
  A = realloc (A, cap_elems * 8 + 64); B = realloc (B, cap_elems * 8 + 64);
  D0 = realloc (D0, cap_elems * 8 + 64); D1 = realloc (D1, cap_elems * 8 + 64);
}

static uint64_t total_elems, total_runs;

/* run the single program with n elements, sources A (and B when the second operand is an array); compare */
static int run_compare (ProgSpec *ps, OrcProgram *p, long n, uint64_t cval, const char *plan, long caseidx)
{
  const PInsn *in = &ps->insns[0]; const RefOp *op = gen_op (in);
  OrcExecutor *ex = orc_executor_new (p);
  int k, i, esz0 = op->ssz[0] * in->mult, esz1 = op->ssz[1] ? op->ssz[1] * in->mult : 0;
  int d0sz = op->dsz[0] * in->mult, d1sz = op->dsz[1] * in->mult;
  int bad = 0; uint32_t acc = 0;
  int src1_scalar = op->ssz[1] && ps->vars[in->src[1]].kind != VK_SRC && ps->vars[in->src[1]].kind != VK_DEST;
  orc_executor_set_n (ex, (int) n);
  memset (D0, 0x5a, (size_t) n * 8); memset (D1, 0x5a, (size_t) n * 8);
  for (i = 0; i < ps->nvars; i++) {
    PVar *v = &ps->vars[i];
    if (v->kind == VK_SRC) orc_executor_set_array (ex, v->orcvar, i == in->src[0] ? A : B);
    else if (v->kind == VK_DEST) orc_executor_set_array (ex, v->orcvar, i == in->dest[0] ? D0 : D1);
    else if (v->kind == VK_PARAM) { if (v->size == 8) orc_executor_set_param_int64 (ex, v->orcvar, (orc_int64) cval); else orc_executor_set_param (ex, v->orcvar, (int) (uint32_t) cval); }
  }
  orc_executor_emulate (ex);
  total_runs++; total_elems += (uint64_t) n;
  for (k = 0; k < n && bad < 1; k++) {
    uint64_t s[4] = { 0 }, d[2] = { 0 }, g0, g1 = 0;
    s[0] = gen_rd (A + (size_t) k * esz0, esz0);
    if (esz1) {
      if (in->src[1] == in->src[0]) s[1] = s[0];
      else if (!src1_scalar) s[1] = gen_rd (B + (size_t) k * esz1, esz1);
      else {
        uint64_t sv = ps->vars[in->src[1]].kind == VK_CONST ? ps->vars[in->src[1]].value : (ps->vars[in->src[1]].size == 8 ? cval : (uint64_t) (int64_t) (int32_t) (uint32_t) cval);
        if (op->flags & RF_SCALAR) s[1] = sv;
        else { int l; uint64_t e = sv & ref_mask (op->ssz[1]); for (l = 0; l < in->mult; l++) s[1] |= e << (8 * op->ssz[1] * l); }
      }
    }
    ref_apply (op, in->mult, s, d);
    if (op->kind == RK_ACC) { acc += (uint32_t) d[0]; continue; }
    g0 = gen_rd (D0 + (size_t) k * d0sz, d0sz);
    if (d1sz) g1 = gen_rd (D1 + (size_t) k * d1sz, d1sz);
    if (g0 != (d[0] & ref_mask (d0sz)) || (d1sz && g1 != (d[1] & ref_mask (d1sz)))) {
      char what[300], sig[200]; VhBuf b = { 0 };
      bad++;
      snprintf (what, sizeof what, "%s%s: element %d of %ld (chunk position %d): operands %#llx, %#llx: emulated %#llx%s reference %#llx", in->mult > 1 ? (in->mult == 2 ? "x2 " : "x4 ") : "", op->name,
          k, n, k & 15, (unsigned long long) s[0], (unsigned long long) s[1], (unsigned long long) g0, d1sz ? " (first dest)" : "", (unsigned long long) (d[0] & ref_mask (d0sz)));
      snprintf (sig, sizeof sig, "C02|value|%s%s|%s", in->mult > 1 ? (in->mult == 2 ? "x2." : "x4.") : "", op->name, src1_scalar ? (ps->vars[in->src[1]].kind == VK_CONST ? "const" : "param") : "array");
      vh_buf_printf (&b, "{\"harness\":\"emu\",\"mode\":\"sweep\",\"seed\":%llu,\"case\":%ld,\"tier\":\"%s\",\"plan\":\"%s\",\"n\":%ld,\"element\":%d,\"a\":\"%#llx\",\"b\":\"%#llx\",\"program\":", (unsigned long long) vh_args.seed, caseidx,
          vh_args.thorough ? "thorough" : "quick", plan, n, k, (unsigned long long) s[0], (unsigned long long) s[1]);
      gen_to_json (ps, &b); vh_buf_printf (&b, "}");
      vh_violation ("C02", sig, what, b.p); free (b.p);
    }
  }
  if (op->kind == RK_ACC) {
    uint32_t got = (uint32_t) ex->accumulators[0], want = op->dsz[0] == 2 ? (acc & 0xffff) : acc;
    if (got != want) {
      char what[300], sig[100];
      snprintf (what, sizeof what, "%s over %ld elements: emulated accumulator %#x reference %#x", op->name, n, got, want);
      snprintf (sig, sizeof sig, "C02|acc|%s", op->name);
      vh_violation ("C02", sig, what, "null"); bad++;
    }
  }
  orc_executor_free (ex);
  return bad;
}

static const uint64_t b16[] = { 0, 1, 2, 3, 0x7e, 0x7f, 0x80, 0x81, 0xfe, 0xff, 0x100, 0x101, 0x1ff, 0x3fff, 0x4000, 0x7ffe, 0x7fff, 0x8000, 0x8001, 0x8002,
  0xbfff, 0xc000, 0xfefe, 0xfeff, 0xff00, 0xff01, 0xff7f, 0xff80, 0xfffe, 0xffff, 0x00ff, 0x5555, 0xaaaa, 0x1234, 0x8080, 0x7f7f, 0x0080, 0x0100, 0x00fe, 0x8100 };
#define NB16 ((int) (sizeof b16 / sizeof b16[0]))

static void put (uint8_t *base, size_t idx, int sz, uint64_t v) { memcpy (base + idx * sz, &v, sz); }

static void sweep_form (ProgSpec *ps, long caseidx, VhRng *r)
{
  const PInsn *in = &ps->insns[0]; const RefOp *op = gen_op (in);
  OrcProgram *p = gen_build (ps);
  OrcCompileResult res = orc_program_compile_for_target (p, ctarget);
  int s0 = op->ssz[0], s1 = op->ssz[1], mult = in->mult, L;
  int src1_array = s1 && (ps->vars[in->src[1]].kind == VK_SRC);
  int src1_scalar = s1 && !src1_array;
  long i, n, pre;
  uint64_t cvals[96]; int ncv = 0, ci;
  if (ORC_COMPILE_RESULT_IS_FATAL (res) || !p->orccode) { vh_count ("forms.not_emulable", 1); orc_program_free (p); return; }
  vh_count ("forms.swept", 1);
  vh_set_addf ("ops", "%s:x%d", op->name, mult);
  /* scalar/constant operand values */
  if (src1_scalar) {
    if (op->flags & RF_SCALAR) { for (i = 0; i < s0 * 8; i++) cvals[ncv++] = (uint64_t) i; }   /* shifts 0..width-1 */
    else { for (i = 0; i < 12; i++) cvals[ncv++] = gen_rand_value (r, s1); cvals[ncv++] = 0; cvals[ncv++] = ref_mask (s1); cvals[ncv++] = ref_mask (s1) >> 1; cvals[ncv++] = (ref_mask (s1) >> 1) + 1; }
  } else cvals[ncv++] = 0;
  for (ci = 0; ci < ncv; ci++) {
    OrcProgram *pp = p; ProgSpec q = *ps;
    if (src1_scalar && ps->vars[in->src[1]].kind == VK_CONST) {
      q.vars[in->src[1]].value = cvals[ci];
      pp = gen_build (&q); res = orc_program_compile_for_target (pp, ctarget);
      if (ORC_COMPILE_RESULT_IS_FATAL (res) || !pp->orccode) { orc_program_free (pp); continue; }
    }
    for (pre = 0; pre < 2; pre++) {       /* two alignments of the value stream against the 16-element chunks */
      long shift = pre ? 5 : 0;
      char plan[40];
      /* ---- plan by element size ---- */
      if (s0 == 1 && (!s1 || src1_scalar)) {
        /* all 256 values in every lane position */
        n = (256 + mult - 1) / mult * mult / mult * mult + shift;  ensure ((size_t) n * mult + 16);
        for (i = 0; i < n * mult; i++) put (A, (size_t) i, 1, (uint64_t) ((i + 256 - shift * mult) & 0xff));
        snprintf (plan, sizeof plan, "exh8");
        run_compare (&q, pp, n, cvals[ci], plan, caseidx);
      } else if (s0 == 1 && s1 == 1 && src1_array) {
        n = 65536 / mult + shift; ensure ((size_t) (n + 1) * mult + 16);
        for (i = 0; i < n * mult; i++) { long v = (i + 65536 - shift * mult) & 0xffff; put (A, (size_t) i, 1, (uint64_t) (v & 0xff)); put (B, (size_t) i, 1, (uint64_t) (v >> 8)); }
        snprintf (plan, sizeof plan, "exh8x8");
        run_compare (&q, pp, n, 0, plan, caseidx);
      } else if (s0 == 2 && (!s1 || src1_scalar)) {
        n = 65536 / mult + shift; ensure ((size_t) (n + 1) * mult + 16);
        for (i = 0; i < n * mult; i++) put (A, (size_t) i, 2, (uint64_t) ((i + 65536 - shift * mult) & 0xffff));
        snprintf (plan, sizeof plan, "exh16");
        run_compare (&q, pp, n, cvals[ci], plan, caseidx);
      } else if (s0 == 2 && s1 == 2 && src1_array) {
        /* boundary x all (both ways); thorough tier: every pair */
        int nb = vh_args.thorough && !pre ? 65536 : NB16, bi;
        n = 65536 / mult + shift; ensure ((size_t) (n + 1) * mult + 16);
        for (bi = 0; bi < nb; bi++) {
          uint64_t bv = (nb == 65536) ? (uint64_t) bi : b16[bi];
          int way;
          for (way = 0; way < (nb == 65536 ? 1 : 2); way++) {
            for (i = 0; i < n * mult; i++) { uint64_t av = (uint64_t) ((i + 65536 - shift * mult) & 0xffff); put (way ? B : A, (size_t) i, 2, av); put (way ? A : B, (size_t) i, 2, bv); }
            snprintf (plan, sizeof plan, nb == 65536 ? "exh16x16" : "b16xall");
            if (run_compare (&q, pp, n, 0, plan, caseidx)) bi = nb;
          }
        }
      } else {
        /* 32/64-bit (and mixed sizes): boundary-crossed plus random */
        int nbv = GEN_NBOUNDARY, x, y; long cnt = 0;
        n = (long) nbv * nbv / mult + (vh_args.thorough ? 400000 : 40000) + shift;
        ensure ((size_t) (n + 1) * mult + 16);
        for (i = 0; i < shift * mult; i++) { put (A, (size_t) cnt, s0, gen_rand_value (r, s0)); if (s1 && src1_array) put (B, (size_t) cnt, s1, gen_rand_value (r, s1)); cnt++; }
        for (x = 0; x < nbv; x++) for (y = 0; y < nbv; y++) { put (A, (size_t) cnt, s0, gen_boundary64[x] & ref_mask (s0)); if (s1 && src1_array) put (B, (size_t) cnt, s1, gen_boundary64[y] & ref_mask (s1)); cnt++; }
        while (cnt < n * mult) { put (A, (size_t) cnt, s0, gen_rand_value (r, s0)); if (s1 && src1_array) put (B, (size_t) cnt, s1, gen_rand_value (r, s1)); cnt++; }
        snprintf (plan, sizeof plan, "cross+random");
        run_compare (&q, pp, n, cvals[ci], plan, caseidx);
      }
    }
    /* position independence: n = 1..50 with the same first elements must give the same prefix (run_compare checks against ref per element) */
    for (L = 1; L <= 50; L += (L < 20 ? 1 : 7)) run_compare (&q, pp, L, cvals[ci], "short-n", caseidx);
    run_compare (&q, pp, 255, cvals[ci], "n255", caseidx); run_compare (&q, pp, 257, cvals[ci], "n257", caseidx);
    if (pp != p) orc_program_free (pp);
    if (op->kind == RK_ACC) {
      /* long accumulation: wrap-around modulo 2^16 / 2^32 */
      n = 70001; ensure ((size_t) n + 16);
      for (i = 0; i < n; i++) { put (A, (size_t) i, s0, ref_mask (s0) - (uint64_t) (i % 3)); if (s1) put (B, (size_t) i, s1, (uint64_t) (i % 5)); }
      run_compare (ps, p, n, 0, "acc-long", caseidx);
    }
  }
  orc_program_free (p);
}

/* opcode table cross-check */
static void check_table (void)
{
  OrcOpcodeSet *set = orc_opcode_set_get ("sys");
  int i, k;
  if (!set) { vh_violation ("C02", "C02|table|missing-sys-set", "orc_opcode_set_get(\"sys\") returned NULL", "null"); return; }
  vh_count ("table.opcodes_in_library", (uint64_t) set->n_opcodes);
  for (i = 0; i < ref_n_ops; i++) {
    const RefOp *r = &ref_ops[i];
    OrcStaticOpcode *o = orc_opcode_find_by_name (r->name);
    char what[200], sig[100];
    if (!o) { snprintf (sig, sizeof sig, "C02|table|missing|%s", r->name); snprintf (what, sizeof what, "opcode %s of the reference is not in the library", r->name); vh_violation ("C02", sig, what, "null"); continue; }
    for (k = 0; k < 2; k++) if (o->dest_size[k] != r->dsz[k]) { snprintf (sig, sizeof sig, "C02|table|dest-size|%s", r->name); snprintf (what, sizeof what, "%s dest[%d] size %d, reference %d", r->name, k, o->dest_size[k], r->dsz[k]); vh_violation ("C02", sig, what, "null"); }
    for (k = 0; k < 4; k++) if (o->src_size[k] != r->ssz[k]) { snprintf (sig, sizeof sig, "C02|table|src-size|%s", r->name); snprintf (what, sizeof what, "%s src[%d] size %d, reference %d", r->name, k, o->src_size[k], r->ssz[k]); vh_violation ("C02", sig, what, "null"); }
    if (((o->flags & ORC_STATIC_OPCODE_ACCUMULATOR) != 0) != ((r->flags & RF_ACC) != 0)) { snprintf (sig, sizeof sig, "C02|table|acc-flag|%s", r->name); vh_violation ("C02", sig, "accumulator flag differs from the reference", "null"); }
    if (((o->flags & ORC_STATIC_OPCODE_SCALAR) != 0) != ((r->flags & RF_SCALAR) != 0)) { snprintf (sig, sizeof sig, "C02|table|scalar-flag|%s", r->name); vh_violation ("C02", sig, "scalar flag differs from the reference", "null"); }
    vh_count ("table.checked", 1);
  }
  for (i = 0; i < set->n_opcodes; i++) if (!ref_find (set->opcodes[i].name)) {
    char sig[100]; snprintf (sig, sizeof sig, "C02|table|unknown|%s", set->opcodes[i].name);
    vh_violation ("C02", sig, "library opcode without reference semantics", "null");
  }
}

int main (int argc, char **argv)
{
  long c;
  vh_parse_args (argc, argv);
  orc_init ();
  ctarget = orc_target_get_by_name ("sse");
  if (!ctarget) ctarget = orc_target_get_default ();
  enumerate_single (GP_INT | GP_ACC);
  if (vh_args.shard == 0 && vh_args.start == 0 && vh_args.only < 0) check_table ();
  for (c = 0; c < n_single; c++) {
    ProgSpec ps; VhRng r; char desc[100];
    if (!vh_my_case (c)) continue;
    if ((single_forms[c].form >> 2) & 1) continue;          /* in-place form: same semantics, covered by exec c02x */
    vh_rng_init (&r, vh_args.seed, (uint64_t) c);
    build_single (&ps, &single_forms[c], &r);
    snprintf (desc, sizeof desc, "sweep %s", ps.name);
    vh_progress (c, desc);
    sweep_form (&ps, c, &r);
    if ((c & 15) == 0) vh_flush ();
  }
  vh_count ("runs.total", total_runs);
  vh_count ("elements", total_elems);
  vh_done ();
  return 0;
}
