/* orccgen.c - C07/C04: generates, for one batch,
 *   <prefix>.orc       K functions in .orc syntax (independent printer)
 *   <prefix>_drv.c     a driver that calls every function through the C prototype orcc generates
 *                      (arrays with canary margins, strides, all parameter classes, n, m) and prints
 *                      "name checksum" lines
 *   <prefix>.expected  the same lines computed by the reference interpreter
 * usage: orccgen --seed S --limit K --aux prefix --mode {int|float|mixed}
 */
#define _GNU_SOURCE
#include <orc/orc.h>
#include "vh.h"
#include "ref.h"
#include "gen.h"

#define MARGIN 64

static uint64_t lcg (uint64_t *x) { *x = *x * 6364136223846793005ULL + 1442695040888963407ULL; return *x; }

/* the same fill is emitted into the driver */
static void fill_buf (uint8_t *buf, long bytes, uint64_t seed, int fsize)
{
  uint64_t x = seed; long i; int positive = fsize & 0x200;
  fsize &= ~0x200;
  /* fsize | 0x200: sign bit cleared (operands of square roots); fsize | 0x100: wide exponent range (finite, up to 2^40: beyond the int32 range) for float->int conversions */
  if (fsize == 4) { for (i = 0; i + 4 <= bytes; i += 4) { uint64_t v = lcg (&x); uint32_t w = (uint32_t) ((v >> 32) & 0x807fffffu) | (uint32_t) ((120 + ((v >> 24) % 16)) << 23); memcpy (buf + i, &w, 4); } for (; i < bytes; i++) buf[i] = 0; }
  else if (fsize == 8) { for (i = 0; i + 8 <= bytes; i += 8) { uint64_t v = lcg (&x); uint64_t w = (v & 0x800fffffffffffffULL) | ((uint64_t) (1016 + ((v >> 52) % 16)) << 52); memcpy (buf + i, &w, 8); } for (; i < bytes; i++) buf[i] = 0; }
  else if (fsize == (4 | 0x100)) { for (i = 0; i + 4 <= bytes; i += 4) { uint64_t v = lcg (&x); uint32_t w = (uint32_t) ((v >> 32) & 0x807fffffu) | (uint32_t) ((100 + ((v >> 24) % 68)) << 23); memcpy (buf + i, &w, 4); } for (; i < bytes; i++) buf[i] = 0; }
  else if (fsize == (8 | 0x100)) { for (i = 0; i + 8 <= bytes; i += 8) { uint64_t v = lcg (&x); uint64_t w = (v & 0x800fffffffffffffULL) | ((uint64_t) (1000 + ((v >> 52) % 64)) << 52); memcpy (buf + i, &w, 8); } for (; i < bytes; i++) buf[i] = 0; }
  else for (i = 0; i < bytes; i++) buf[i] = (uint8_t) (lcg (&x) >> 56);
  if (positive) { int w = fsize & 0xff; for (i = w - 1; i < bytes; i += w) buf[i] &= 0x7f; }
}

static int var_fsize (const ProgSpec *ps, int var)
{
  int q, k;
  for (q = 0; q < ps->ninsns; q++) {
    const PInsn *in = &ps->insns[q]; const RefOp *op = gen_op (in);
    for (k = 0; k < 4; k++) if (op->ssz[k] && in->src[k] == var && (op->flags & RF_FLOAT_S) && strcmp (op->name, "orf") && strcmp (op->name, "andf")) return op->ssz[k];
  }
  return 0;
}

static uint64_t fnv_buf (uint64_t h, const uint8_t *p, long n) { long i; for (i = 0; i < n; i++) h = (h ^ p[i]) * 1099511628211ULL; return h; }


static int float_const_ok (const PVar *v)
{
  if (v->size == 8) { int e = (int) ((v->value >> 52) & 0x7ff); return e >= 1016 && e < 1032; }
  else { int e = (int) ((v->value >> 23) & 0xff); return e >= 120 && e < 136; }
}

static int is_bitwise_f (const RefOp *op) { return !strcmp (op->name, "orf") || !strcmp (op->name, "andf"); }

/* The property (with C18) fixes float results bit for bit for finite inputs only: keep every float-typed operand a finite
 * normal number by construction - it comes from an array/constant/parameter of that float width or from a float-producing
 * instruction of the same lane width (comparison masks and integer results reinterpreted as floats are NaNs/denormals). */
static int text_ok (ProgSpec *ps, int allow_special)
{
  int wr[GEN_MAX_VARS] = { 0 }, ft[GEN_MAX_VARS], q, k, i;
  for (i = 0; i < ps->nvars; i++) ft[i] = -1;      /* -1: initial content (array fill / constant / parameter), 0: not a float, 4/8: float lanes */
  /* a parameter plays one role only (offset, resampling start/step, shift count of one width, float, plain integer): its value
   * is drawn from that role's domain, and the domains differ (a load offset of -3 is not a shift count the property covers) */
  for (i = 0; i < ps->nvars; i++) if (ps->vars[i].kind == VK_PARAM) {
    int role = -1;
    for (q = 0; q < ps->ninsns; q++) {
      const PInsn *in = &ps->insns[q]; const RefOp *op = gen_op (in);
      for (k = 0; k < 4; k++) if (op->ssz[k] && in->src[k] == i) {
        int r = 0;
        if (op->kind == RK_LOADOFF && k == 1) r = 1;
        else if ((op->kind == RK_RESNEAR || op->kind == RK_RESLIN) && k == 1) r = 2;
        else if ((op->kind == RK_RESNEAR || op->kind == RK_RESLIN) && k == 2) r = 3;
        else if (op->kind == RK_ELEM && (op->flags & RF_SCALAR) && k >= 1) r = 16 + op->ssz[0];
        if (role == -1) role = r; else if (role != r) return 0;
      }
    }
  }
  for (q = 0; q < ps->ninsns; q++) {
    const PInsn *in = &ps->insns[q]; const RefOp *op = gen_op (in); int srcft = 0;
    if (op->kind != RK_ELEM && op->kind != RK_ACC && op->kind != RK_LOAD && op->kind != RK_STORE && op->kind != RK_LOADP && !allow_special) return 0;
    for (k = 0; k < 4; k++) if (op->ssz[k]) {
      PVar *v = &ps->vars[in->src[k]];
      if ((op->flags & RF_FLOAT_S) && !is_bitwise_f (op)) {
        if (v->kind == VK_CONST) {
          if (!float_const_ok (v)) { if (v->size == 8) v->value = (v->value & 0x800fffffffffffffULL) | ((uint64_t) (1016 + ((v->value >> 52) % 16)) << 52); else v->value = (v->value & 0x807fffffu) | (uint64_t) ((120 + ((v->value >> 23) % 16)) << 23); }
        } else if (v->kind == VK_PARAM) {
          /* a parameter is a float or an integer, not both */
          int q2, k2; for (q2 = 0; q2 < ps->ninsns; q2++) for (k2 = 0; k2 < 4; k2++) if (gen_op (&ps->insns[q2])->ssz[k2] && ps->insns[q2].src[k2] == in->src[k] &&
              (!(gen_op (&ps->insns[q2])->flags & RF_FLOAT_S) || is_bitwise_f (gen_op (&ps->insns[q2])) || gen_op (&ps->insns[q2])->ssz[k2] != op->ssz[k])) return 0;
        } else if (ft[in->src[k]] == -1) {
          if (var_fsize (ps, in->src[k]) != op->ssz[k]) return 0;
        } else if (ft[in->src[k]] != op->ssz[k]) return 0;
      }
      if (k == 0) srcft = ft[in->src[k]] == -1 ? ((v->kind == VK_SRC || v->kind == VK_DEST) ? var_fsize (ps, in->src[k]) : 0) : ft[in->src[k]];
    }
    for (k = 0; k < 2; k++) if (op->dsz[k]) {
      int d = in->dest[k];
      if (ps->vars[d].kind == VK_DEST && wr[d]++) return 0;
      if ((op->flags & RF_FLOAT_D) && !is_bitwise_f (op)) ft[d] = op->dsz[k];
      else if ((op->kind == RK_LOAD || op->kind == RK_STORE || !strncmp (op->name, "copy", 4)) && op->dsz[k] == op->ssz[0]) ft[d] = srcft;
      else ft[d] = 0;
    }
  }
  return 1;
}

/* role of a parameter decides its value */
static uint64_t choose_param (const ProgSpec *ps, int var, VhRng *r, int n)
{
  int q, k; const PVar *v = &ps->vars[var];
  for (q = 0; q < ps->ninsns; q++) {
    const PInsn *in = &ps->insns[q]; const RefOp *op = gen_op (in);
    for (k = 0; k < 4; k++) {
      if (!op->ssz[k] || in->src[k] != var) continue;
      if (op->kind == RK_LOADOFF && k == 1) return (uint64_t) (int64_t) ((int) vh_randn (r, 9) - 4) & 0xffffffffu;
      if ((op->kind == RK_RESNEAR || op->kind == RK_RESLIN) && k == 1) return vh_randn (r, 3 << 16);
      if ((op->kind == RK_RESNEAR || op->kind == RK_RESLIN) && k == 2) return vh_chance (r, 1, 4) ? (1 << 16) : vh_randn (r, (2 << 16) + 1);
      if (op->kind == RK_ELEM && (op->flags & RF_SCALAR) && k >= 1) return vh_randn (r, (uint32_t) (op->ssz[0] * 8));
    }
  }
  (void) n;
  if (v->ptype == PT_FLOAT) { uint64_t x = vh_rand (r); return (uint32_t) ((x >> 32) & 0x807fffffu) | (uint32_t) ((120 + ((x >> 24) % 16)) << 23); }
  if (v->ptype == PT_DOUBLE) { uint64_t x = vh_rand (r); return (x & 0x800fffffffffffffULL) | ((uint64_t) (1016 + ((x >> 52) % 16)) << 52); }
  return v->size == 8 ? vh_rand (r) : (uint64_t) (uint32_t) gen_rand_value (r, 4);
}

/* a NaN in a float-typed destination: its sign/payload is not fixed across implementations */
static int dest_has_nan (const ProgSpec *ps, const RunIO *io, int var, int n, int m)
{
  int q, k, fs = 0, j, i;
  for (q = 0; q < ps->ninsns; q++) { const RefOp *op = gen_op (&ps->insns[q]); for (k = 0; k < 2; k++) if (op->dsz[k] && ps->insns[q].dest[k] == var && (op->flags & RF_FLOAT_D)) fs = op->dsz[k]; }
  if (!fs) return 0;
  for (j = 0; j < m; j++) for (i = 0; i < n * ps->vars[var].size / fs; i++) {
    const uint8_t *q8 = io->arr[var] + (long) j * io->stride[var] + (long) i * fs;
    if (fs == 4) { uint32_t w; memcpy (&w, q8, 4); if ((w & 0x7f800000u) == 0x7f800000u && (w & 0x7fffffu)) return 1; if ((w & 0x7f800000u) == 0 && (w & 0x7fffffu)) return 1; }
    else { uint64_t w; memcpy (&w, q8, 8); if ((w >> 52 & 0x7ff) == 0x7ff && (w & 0xfffffffffffffULL)) return 1; if ((w >> 52 & 0x7ff) == 0 && (w & 0xfffffffffffffULL)) return 1; }
  }
  return 0;
}

#include "progs.h"

int main (int argc, char **argv)
{
  FILE *forc, *fdrv, *fexp; char path[600]; int k, K, single; unsigned profile; long emitted = 0;
  vh_parse_args (argc, argv);
  K = vh_args.limit > 0 ? (int) vh_args.limit : 30;
  single = !strcmp (vh_args.mode, "single") || !strcmp (vh_args.mode, "fsingle");
  profile = !strcmp (vh_args.mode, "float") ? (GP_FLOAT | GP_2D) : !strcmp (vh_args.mode, "mixed") ? (GP_INT | GP_FLOAT | GP_ACC | GP_2D | GP_EXPLICIT_LS | GP_SPECIAL) : (GP_INT | GP_ACC | GP_2D | GP_EXPLICIT_LS);
  snprintf (path, sizeof path, "%s.orc", vh_args.aux); forc = fopen (path, "w");
  snprintf (path, sizeof path, "%s_drv.c", vh_args.aux); fdrv = fopen (path, "w");
  snprintf (path, sizeof path, "%s.expected", vh_args.aux); fexp = fopen (path, "w");
  if (!forc || !fdrv || !fexp) { perror ("open"); return 2; }
  orc_init ();
  if (single) {
    enumerate_single (!strcmp (vh_args.mode, "fsingle") ? GP_FLOAT : (GP_INT | GP_FLOAT | GP_ACC | GP_SPECIAL));
    if (vh_args.limit == -2) { printf ("%d\n", n_single); return 0; }      /* how many single-opcode forms there are */
    if (vh_args.start >= n_single) K = 0; else if (vh_args.start + K > n_single) K = (int) (n_single - vh_args.start);
    fprintf (stderr, "n_single %d\n", n_single);

  }
  fprintf (fdrv, "/* generated by orccgen */\n#include <stdio.h>\n#include <stdlib.h>\n#include <string.h>\n#include <stdint.h>\n#include \"%s.h\"\n", strrchr (vh_args.aux, '/') ? strrchr (vh_args.aux, '/') + 1 : vh_args.aux);
  fprintf (fdrv, "static uint64_t lcg (uint64_t *x) { *x = *x * 6364136223846793005ULL + 1442695040888963407ULL; return *x; }\n"
      "static void fill_buf (unsigned char *buf, long bytes, uint64_t seed, int fsize) { uint64_t x = seed; long i; int positive = fsize & 0x200; fsize &= ~0x200;\n"
      "  if (fsize == 4) { for (i = 0; i + 4 <= bytes; i += 4) { uint64_t v = lcg (&x); uint32_t w = (uint32_t) ((v >> 32) & 0x807fffffu) | (uint32_t) ((120 + ((v >> 24) %% 16)) << 23); memcpy (buf + i, &w, 4); } for (; i < bytes; i++) buf[i] = 0; }\n"
      "  else if (fsize == 8) { for (i = 0; i + 8 <= bytes; i += 8) { uint64_t v = lcg (&x); uint64_t w = (v & 0x800fffffffffffffULL) | ((uint64_t) (1016 + ((v >> 52) %% 16)) << 52); memcpy (buf + i, &w, 8); } for (; i < bytes; i++) buf[i] = 0; }\n"
      "  else if (fsize == (4 | 0x100)) { for (i = 0; i + 4 <= bytes; i += 4) { uint64_t v = lcg (&x); uint32_t w = (uint32_t) ((v >> 32) & 0x807fffffu) | (uint32_t) ((100 + ((v >> 24) %% 68)) << 23); memcpy (buf + i, &w, 4); } for (; i < bytes; i++) buf[i] = 0; }\n"
      "  else if (fsize == (8 | 0x100)) { for (i = 0; i + 8 <= bytes; i += 8) { uint64_t v = lcg (&x); uint64_t w = (v & 0x800fffffffffffffULL) | ((uint64_t) (1000 + ((v >> 52) %% 64)) << 52); memcpy (buf + i, &w, 8); } for (; i < bytes; i++) buf[i] = 0; }\n"
      "  else for (i = 0; i < bytes; i++) buf[i] = (unsigned char) (lcg (&x) >> 56);\n"
      "  if (positive) { int w = fsize & 0xff; for (i = w - 1; i < bytes; i += w) buf[i] &= 0x7f; } }\n"
      "static uint64_t fnv_buf (uint64_t h, const unsigned char *p, long n) { long i; for (i = 0; i < n; i++) h = (h ^ p[i]) * 1099511628211ULL; return h; }\n"
      "typedef union { uint32_t i; float f; } u32f; typedef union { uint64_t i; double f; } u64d;\n"
      "#include <pthread.h>\nstatic int only = -1; static char *outbuf[64];\n"
      "static void *body (void *arg) {\n  int tix = (int) (intptr_t) arg; char *o = outbuf[tix] = calloc (1, 1 << 16); size_t ol = 0;\n");
  for (k = 0; k < K; k++) {
    ProgSpec ps; VhRng r; char nm[40]; int i, tries = 0, ok = 0, n = 0, m = 1;
    RunIO io; static uint8_t *bufs[GEN_MAX_VARS]; long bytes[GEN_MAX_VARS], off[GEN_MAX_VARS]; uint64_t h = 1469598103934665603ULL;
    GenPrintStyle st = { 0 }; VhBuf tb = { 0 }; VhBuf dtext = { 0 }; int acc_int[GEN_MAX_VARS] = { 0 };
    memset (bufs, 0, sizeof bufs);
    while (!ok && tries++ < 60) {
      vh_rng_init (&r, vh_args.seed, (uint64_t) ((vh_args.start + k) * 1000 + tries));
      if (single) { build_single (&ps, &single_forms[vh_args.start + k], &r); ok = text_ok (&ps, 1); if (vh_chance (&r, 1, 3)) ps.is2d = 1; }
      else {
        snprintf (nm, sizeof nm, "vf_%llu_%d", (unsigned long long) vh_args.seed, k);
        gen_init (&ps, nm);
        ok = gen_random (&ps, &r, profile, 1 + (int) vh_randn (&r, (profile & GP_FLOAT) ? 5 : 10)) && text_ok (&ps, (profile & GP_SPECIAL) != 0);
      }
      if (!ok) continue;
      /* parameter classes: doubles / floats where sizes allow */
      for (i = 0; i < ps.nvars; i++) if (ps.vars[i].kind == VK_PARAM) {
        int isf = 0, q, kk; for (q = 0; q < ps.ninsns; q++) for (kk = 0; kk < 4; kk++) if (gen_op (&ps.insns[q])->ssz[kk] && ps.insns[q].src[kk] == i && (gen_op (&ps.insns[q])->flags & RF_FLOAT_S) && gen_op (&ps.insns[q])->kind == RK_ELEM) isf = 1;
        if (isf) ps.vars[i].ptype = ps.vars[i].size == 8 ? PT_DOUBLE : PT_FLOAT; else if (ps.vars[i].size == 8) ps.vars[i].ptype = PT_INT64;
      }
      if (vh_chance (&r, 1, 6)) ps.const_n = 8 + (int) vh_randn (&r, 60);
      /* values at the edges of the one-byte/two-byte encodings of the embedded bytecode */
      if (ps.const_n && vh_chance (&r, 1, 3)) { static const int edge[] = { 127, 128, 129, 254, 255, 256, 257, 300 }; ps.const_n = edge[vh_randn (&r, 8)]; }
      if (ps.is2d && vh_chance (&r, 1, 4)) ps.const_m = 1 + (int) vh_randn (&r, 3);
      n = ps.const_n ? ps.const_n : (vh_chance (&r, 1, 12) ? (int) vh_randn (&r, 3) : (int) vh_randn (&r, 90));
      m = ps.is2d ? (ps.const_m ? ps.const_m : 1 + (int) vh_randn (&r, 4)) : 1;
      memset (&io, 0, sizeof io); io.n = n; io.m = m;
      for (i = 0; i < ps.nvars; i++) if (ps.vars[i].kind == VK_PARAM) io.param[i] = choose_param (&ps, i, &r, n);
      vh_buf_reset (&dtext);
      for (i = 0; i < ps.nvars; i++) {
        PVar *v = &ps.vars[i];
        if (v->kind == VK_DEST || v->kind == VK_SRC) {
          long lo = 0, hi = n, ext; int stride, mis = (int) vh_randn (&r, 4) * v->size, fs = var_fsize (&ps, i); long total;
          /* single-opcode forms: the whole finite range a conversion saturates on (and, in the float-only mode, every opcode gets wide operands); roots get positive operands */
          if (fs && single && ps.ninsns == 1 && (gen_op (&ps.insns[0])->flags & RF_FLOAT_S) &&
              ((!(gen_op (&ps.insns[0])->flags & RF_FLOAT_D) && !strncmp (gen_op (&ps.insns[0])->name, "conv", 4)) || !strcmp (vh_args.mode, "fsingle"))) fs |= 0x100;
          if (fs && single && ps.ninsns == 1 && !strncmp (gen_op (&ps.insns[0])->name, "sqrt", 4)) fs |= 0x200;
          gen_entitled (&ps, &io, i, &lo, &hi);
          if (lo > 0) lo = 0;
          if (hi < n) hi = n;
          ext = (hi - lo) * v->size;
          stride = ps.is2d ? (int) ((ext + (long) vh_randn (&r, 40)) / v->size * v->size + v->size) : 0;
          total = (long) (m - 1) * stride + ext;
          bytes[i] = total + 2 * MARGIN + 32;
          off[i] = MARGIN + mis + (-lo) * v->size;
          free (bufs[i]); bufs[i] = malloc ((size_t) bytes[i] + 64);
          fill_buf (bufs[i], bytes[i], vh_args.seed * 1315423911ULL + (uint64_t) ((vh_args.start + k) * 64 + i), fs);
          io.arr[i] = bufs[i] + off[i]; io.stride[i] = stride;
          vh_buf_printf (&dtext, "    static __thread unsigned char b%d[%ld] __attribute__ ((aligned (32))); fill_buf (b%d, %ld, %lluULL, %d);\n", i, bytes[i] + 64, i, bytes[i], (unsigned long long) (vh_args.seed * 1315423911ULL + (uint64_t) ((vh_args.start + k) * 64 + i)), fs);
        }
      }
      gen_interp (&ps, &io);
      for (i = 0; i < ps.nvars; i++) if (ps.vars[i].kind == VK_DEST && dest_has_nan (&ps, &io, i, n, m)) ok = 0;
    }
    if (!ok) continue;
    emitted++;
    st.spaces_after_comma = 1; st.hex = vh_chance (&r, 1, 2);
    gen_print_orc (&ps, &tb, &st, NULL);
    /* some 2-byte accumulators get a wider C type in the prototype (`.accumulator 2 a1 int`): the 16-bit sum arrives zero-extended */
    for (i = 0; i < ps.nvars; i++) {
      acc_int[i] = ps.vars[i].kind == VK_ACC && ps.vars[i].size == 2 && vh_chance (&r, 1, 2);
      if (acc_int[i]) {
        char key[40], *at; snprintf (key, sizeof key, ".accumulator 2 %s\n", ps.vars[i].name);
        at = strstr (tb.p, key);
        if (at) { VhBuf nb = { 0 }; size_t pre = (size_t) (at - tb.p) + strlen (key) - 1; vh_buf_printf (&nb, "%.*s int%s", (int) pre, tb.p, tb.p + pre); free (tb.p); tb = nb; }
        else acc_int[i] = 0;
      }
    }
    fprintf (forc, "%s\n", tb.p); free (tb.p);
    fprintf (fdrv, "  if ((only < 0 || only == %d) && ol < (1 << 16) - 100) {\n    uint64_t h = 1469598103934665603ULL;\n%s", k, dtext.p ? dtext.p : "");
    /* call text in orcc's prototype order: dests, accumulators, sources, params, n, m */
    {
      VhBuf c = { 0 }; int first = 1;
#define SEP() do { if (!first) vh_buf_printf (&c, ", "); first = 0; } while (0)
      for (i = 0; i < ps.nvars; i++) if (ps.vars[i].kind == VK_ACC) {
        if (acc_int[i]) fprintf (fdrv, "    int acc%d = 0x5a5a5a5a;\n", i); else fprintf (fdrv, "    orc_uint%d acc%d = 0x5a5a;\n", ps.vars[i].size * 8, i);
      }
      vh_buf_printf (&c, "    %s (", ps.name);
      for (i = 0; i < ps.nvars; i++) if (ps.vars[i].kind == VK_DEST) { SEP (); vh_buf_printf (&c, "(void *) (b%d + %ld)", i, off[i]); if (ps.is2d) vh_buf_printf (&c, ", %d", io.stride[i]); }
      for (i = 0; i < ps.nvars; i++) if (ps.vars[i].kind == VK_ACC) { SEP (); vh_buf_printf (&c, "(void *) &acc%d", i); }
      for (i = 0; i < ps.nvars; i++) if (ps.vars[i].kind == VK_SRC) { SEP (); vh_buf_printf (&c, "(const void *) (b%d + %ld)", i, off[i]); if (ps.is2d) vh_buf_printf (&c, ", %d", io.stride[i]); }
      for (i = 0; i < ps.nvars; i++) if (ps.vars[i].kind == VK_PARAM) {
        SEP ();
        switch (ps.vars[i].ptype) {
          case PT_FLOAT: vh_buf_printf (&c, "((u32f) { .i = 0x%xu }).f", (uint32_t) io.param[i]); break;
          case PT_DOUBLE: vh_buf_printf (&c, "((u64d) { .i = 0x%llxULL }).f", (unsigned long long) io.param[i]); break;
          case PT_INT64: vh_buf_printf (&c, "(orc_int64) 0x%llxULL", (unsigned long long) io.param[i]); break;
          default: vh_buf_printf (&c, "(int) 0x%xu", (uint32_t) io.param[i]); break;
        }
      }
      if (!ps.const_n) { SEP (); vh_buf_printf (&c, "%d", n); }
      if (ps.is2d && !ps.const_m) { SEP (); vh_buf_printf (&c, "%d", m); }
      vh_buf_printf (&c, ");\n");
      fprintf (fdrv, "%s", c.p); free (c.p);
    }
    for (i = 0; i < ps.nvars; i++) if (ps.vars[i].kind == VK_DEST) { h = fnv_buf (h, bufs[i], bytes[i]); fprintf (fdrv, "    h = fnv_buf (h, b%d, %ld);\n", i, bytes[i]); }
    { int a = 0; for (i = 0; i < ps.nvars; i++) if (ps.vars[i].kind == VK_ACC) { uint32_t v = (uint32_t) io.acc[a++]; if (ps.vars[i].size == 2) v &= 0xffff; h = fnv_buf (h, (uint8_t *) &v, 4); fprintf (fdrv, "    { uint32_t v = (uint32_t) acc%d; h = fnv_buf (h, (unsigned char *) &v, 4); }\n", i); } }
    /* sources must be untouched */
    for (i = 0; i < ps.nvars; i++) if (ps.vars[i].kind == VK_SRC) { h = fnv_buf (h, bufs[i], bytes[i]); fprintf (fdrv, "    h = fnv_buf (h, b%d, %ld);\n", i, bytes[i]); }
    fprintf (fdrv, "    ol += (size_t) sprintf (o + ol, \"%s %%016llx\\n\", (unsigned long long) h);\n  }\n", ps.name);
    fprintf (fexp, "%s %016llx\n", ps.name, (unsigned long long) h);
    for (i = 0; i < ps.nvars; i++) { free (bufs[i]); bufs[i] = NULL; }
    free (dtext.p);
  }
  fprintf (fdrv, "  return NULL;\n}\n"
      "int main (int argc, char **argv) {\n  int nt = getenv (\"VF_THREADS\") ? atoi (getenv (\"VF_THREADS\")) : 1, i, bad = 0; pthread_t th[64];\n  if (argc > 1) only = atoi (argv[1]);\n  if (nt > 64) nt = 64;\n"
      "#ifdef HAVE_INIT_FUNCTION\n  HAVE_INIT_FUNCTION ();\n#endif\n"
      "  if (nt <= 1) body (NULL);\n  else { for (i = 0; i < nt; i++) pthread_create (&th[i], NULL, body, (void *) (intptr_t) i); for (i = 0; i < nt; i++) pthread_join (th[i], NULL);\n"
      "    for (i = 1; i < nt; i++) if (strcmp (outbuf[0], outbuf[i])) bad = 1; }\n"
      "  fputs (outbuf[0], stdout);\n  if (bad) puts (\"THREAD-MISMATCH 0\");\n  return 0;\n}\n");
  fclose (forc); fclose (fdrv); fclose (fexp);
  fprintf (stderr, "emitted %ld\n", emitted);
  return 0;
}
