#ifndef TRAMP_H
#define TRAMP_H
#include <stdint.h>
typedef struct VhTramp {
  uint64_t seed[6];
  uint64_t out[6];
  uint64_t rsp_before, rsp_after;
  uint32_t mxcsr_in, mxcsr_out;
  uint64_t rflags_out;
  uint8_t fenv[32];
  uint64_t canary_bad;
  uint32_t mxcsr_save, pad;
} VhTramp;
void vh_tramp_call (void (*fn) (void *), void *arg, VhTramp *st);
void vh_tramp_reset (void);
static const char *const vh_tramp_regname[6] = { "rbx", "rbp", "r12", "r13", "r14", "r15" };
#endif
