/* mt.c - C08: concurrency scenarios, built with -fsanitize=thread.
 *   --mode init     all threads call orc_init() from a barrier (fresh process per repetition)
 *   --mode compile  threads build/compile/run/free different programs concurrently
 *   --mode shared   one compiled function, one executor per thread
 *   --mode takefree one thread takes/frees code objects while others compile
 *   --mode once     N threads make the first call through an OrcOnce-guarded initialiser (as orcc --lazy-init emits)
 * --limit = number of threads (default 8).  Results are checked against emulation / a counter;
 * ThreadSanitizer reports go to stderr and are collected by the driver.
 */
#define _GNU_SOURCE
#include <orc/orc.h>
#include <orc/orconce.h>
#include <pthread.h>
#include <sched.h>
#include <time.h>
#include "vh.h"
#include "ref.h"
#include "gen.h"

extern void (*orc_verif_yield_hook) (int point);

static int nthreads = 8;
static pthread_barrier_t bar;
static uint64_t yields[4];
static __thread VhRng trng; static __thread int trng_init;
static uint64_t order_hash;          /* hash of the (thread, point) order actually observed */
static __thread int tid;

static void yield_hook (int point)
{
  if (!trng_init) { vh_rng_init (&trng, vh_args.seed * 977 + (uint64_t) tid, (uint64_t) (uintptr_t) &trng); trng_init = 1; }
  __atomic_fetch_add (&yields[point & 3], 1, __ATOMIC_RELAXED);
  {
    /* order log: lock-free rolling hash of (thread, point) in arrival order */
    uint64_t old = __atomic_load_n (&order_hash, __ATOMIC_RELAXED), nw;
    do { nw = (old ^ (uint64_t) (tid * 4 + point + 1)) * 1099511628211ULL; } while (!__atomic_compare_exchange_n (&order_hash, &old, nw, 0, __ATOMIC_RELAXED, __ATOMIC_RELAXED));
  }
  switch (vh_randn (&trng, 4)) {
    case 0: break;
    case 1: sched_yield (); break;
    case 2: { struct timespec ts = { 0, 1000 * (long) vh_randn (&trng, 50) }; nanosleep (&ts, NULL); break; }
    default: { volatile int k, n = (int) vh_randn (&trng, 2000); for (k = 0; k < n; k++) ; break; }
  }
}

static long errors_found;
static void mt_viol (const char *sigtail, const char *what)
{
  static pthread_mutex_t m = PTHREAD_MUTEX_INITIALIZER; char sig[200];
  pthread_mutex_lock (&m);
  snprintf (sig, sizeof sig, "C08|%s", sigtail);
  vh_violation ("C08", sig, what, "null");
  errors_found++;
  pthread_mutex_unlock (&m);
}

/* run natively and by emulation, compare */
static int run_and_compare (OrcProgram *p, OrcCode *code, uint64_t salt)
{
  uint8_t *bufs[ORC_N_VARIABLES] = { 0 }, *bufe[ORC_N_VARIABLES] = { 0 }; OrcExecutor exn, exe; int i, j, bad = 0;
  OrcVariable *vars = p ? p->vars : NULL;
  memset (&exn, 0, sizeof exn);
  if (p) orc_executor_set_program (&exn, p); else { exn.arrays[ORC_VAR_A2] = code; }
  exn.n = 41; exn.params[ORC_VAR_A1] = 1;
  for (i = 0; i < ORC_VAR_A1; i++) {
    if (vars && !vars[i].size) continue;
    bufs[i] = malloc (4096); bufe[i] = malloc (4096);
    for (j = 0; j < 4096; j++) bufs[i][j] = bufe[i][j] = (uint8_t) (j * 13 + i * 7 + salt);
    exn.arrays[i] = bufs[i] + 1024; exn.params[i] = 512;
  }
  for (i = ORC_VAR_P1; i < ORC_VAR_P1 + 8; i++) exn.params[i] = 2;
  exe = exn;
  for (i = 0; i < ORC_VAR_A1; i++) if (bufe[i] && i < ORC_VAR_S1) exe.arrays[i] = bufe[i] + 1024;
  if (p) { orc_executor_run (&exn); } else code->exec (&exn);
  orc_executor_emulate (&exe);
  for (i = 0; i < ORC_VAR_S1; i++) if (bufs[i] && memcmp (bufs[i], bufe[i], 4096)) bad = 1;
  for (i = 0; i < 4; i++) if (exn.accumulators[i] != exe.accumulators[i]) bad = 1;
  for (i = 0; i < ORC_VAR_A1; i++) { free (bufs[i]); free (bufe[i]); }
  return bad;
}

static int simple_spec (ProgSpec *ps, VhRng *r)
{
  int q;
  gen_init (ps, "mt");
  if (!gen_random (ps, r, GP_INT | GP_ACC, 1 + (int) vh_randn (r, vh_chance (r, 1, 6) ? 50 : 9))) return 0;
  for (q = 0; q < ps->ninsns; q++) { int k = gen_op (&ps->insns[q])->kind; if (k != RK_ELEM && k != RK_ACC) return 0; }
  return !ps->is2d;
}

/* ---------------------------------------------------------------- scenarios */
static void *th_init (void *arg)
{
  tid = (int) (intptr_t) arg;
  pthread_barrier_wait (&bar);
  orc_init ();
  /* the library must be usable right after orc_init returns in any thread */
  if (!orc_target_get_by_name ("sse") || !orc_opcode_find_by_name ("addw")) mt_viol ("init|not-initialised-after-return", "orc_init returned in one thread before targets/opcodes were registered");
  return NULL;
}

static OrcProgram *shared_prog;
static void *th_shared (void *arg)
{
  int k; tid = (int) (intptr_t) arg;
  pthread_barrier_wait (&bar);
  for (k = 0; k < 300; k++) if (run_and_compare (shared_prog, NULL, (uint64_t) (tid * 1000 + k))) { mt_viol ("shared|wrong-result", "a thread running the shared compiled function got a result different from emulation"); break; }
  return NULL;
}

static long iters_per_thread = 150;
static void *th_compile (void *arg)
{
  VhRng r; long k; OrcTarget *sse = orc_target_get_by_name ("sse"), *avx = orc_target_get_by_name ("avx");
  tid = (int) (intptr_t) arg;
  vh_rng_init (&r, vh_args.seed, (uint64_t) (1000 + tid));
  pthread_barrier_wait (&bar);
  for (k = 0; k < iters_per_thread; k++) {
    ProgSpec ps; OrcProgram *p; OrcCompileResult res;
    if (!simple_spec (&ps, &r)) continue;
    p = gen_build (&ps);
    res = orc_program_compile_for_target (p, vh_chance (&r, 1, 2) ? sse : avx);
    if (ORC_COMPILE_RESULT_IS_SUCCESSFUL (res)) {
      if (run_and_compare (p, NULL, (uint64_t) k)) { mt_viol ("compile|wrong-result", "a program compiled concurrently with others computes a result different from emulation"); orc_program_free (p); break; }
      __atomic_fetch_add (&yields[1], 0, __ATOMIC_RELAXED);
    }
    orc_program_free (p);
  }
  return NULL;
}

static void *th_takefree (void *arg)
{
  VhRng r; long k; OrcCode *held[8]; int nh = 0; OrcTarget *sse = orc_target_get_by_name ("sse");
  tid = (int) (intptr_t) arg;
  vh_rng_init (&r, vh_args.seed, (uint64_t) (2000 + tid));
  pthread_barrier_wait (&bar);
  for (k = 0; k < iters_per_thread; k++) {
    ProgSpec ps; OrcProgram *p; OrcCompileResult res;
    if (!simple_spec (&ps, &r)) continue;
    p = gen_build (&ps);
    res = orc_program_compile_for_target (p, sse);
    if (ORC_COMPILE_RESULT_IS_SUCCESSFUL (res)) {
      OrcCode *c = orc_program_take_code (p);
      orc_program_free (p);
      if (run_and_compare (NULL, c, (uint64_t) k)) { mt_viol ("takefree|wrong-result", "a detached code object computes a result different from emulation while other threads compile and free"); orc_code_free (c); break; }
      if (nh < 8) held[nh++] = c; else { int j = (int) vh_randn (&r, 8); orc_code_free (held[j]); held[j] = c; }
    } else orc_program_free (p);
  }
  while (nh) orc_code_free (held[--nh]);
  return NULL;
}

/* the pattern orcc --lazy-init emits */
static OrcOnce once = ORC_ONCE_INIT;
static int init_count;
static void *th_once (void *arg)
{
  OrcCode *c = NULL; void *v = NULL;
  tid = (int) (intptr_t) arg;
  pthread_barrier_wait (&bar);
  if (!orc_once_enter (&once, &v)) {
    OrcProgram *p = orc_program_new ();
    int d = orc_program_add_destination (p, 2, "d1"), s1 = orc_program_add_source (p, 2, "s1"), s2 = orc_program_add_source (p, 2, "s2");
    __atomic_fetch_add (&init_count, 1, __ATOMIC_RELAXED);
    yield_hook (1);
    orc_program_append (p, "addssw", d, s1, s2);
    orc_program_compile (p);
    c = orc_program_take_code (p);
    orc_program_free (p);
    yield_hook (1);
    orc_once_leave (&once, c);
  } else c = v;
  if (!c || !c->exec || !c->insns) { mt_viol ("once|partial-object", "a caller of the once-guarded initialiser saw a NULL or partially initialised code object"); return NULL; }
  if (run_and_compare (NULL, c, (uint64_t) tid)) mt_viol ("once|wrong-result", "a caller of the once-guarded function got a wrong result");
  return NULL;
}

int main (int argc, char **argv)
{
  pthread_t th[64]; int i; void *(*fn) (void *) = NULL; const char *mode;
  vh_parse_args (argc, argv);
  mode = vh_args.mode;
  nthreads = vh_args.limit > 0 ? (int) vh_args.limit : 8; if (nthreads > 64) nthreads = 64;
  if (vh_args.thorough) iters_per_thread = 500;
  orc_verif_yield_hook = yield_hook;
  pthread_barrier_init (&bar, NULL, (unsigned) nthreads);
  if (!strcmp (mode, "init")) fn = th_init;
  else {
    orc_init ();
    if (!strcmp (mode, "compile")) fn = th_compile;
    else if (!strcmp (mode, "takefree")) fn = th_takefree;
    else if (!strcmp (mode, "once")) fn = th_once;
    else if (!strcmp (mode, "shared")) {
      ProgSpec ps; VhRng r; OrcCompileResult res = ORC_COMPILE_RESULT_UNKNOWN_COMPILE; int tries = 0;
      vh_rng_init (&r, vh_args.seed, 5);
      do { while (!simple_spec (&ps, &r)) ; if (shared_prog) orc_program_free (shared_prog); shared_prog = gen_build (&ps); res = orc_program_compile_for_target (shared_prog, orc_target_get_by_name ("sse")); } while (!ORC_COMPILE_RESULT_IS_SUCCESSFUL (res) && tries++ < 50);
      fn = th_shared;
    } else { fprintf (stderr, "unknown mode\n"); return 2; }
  }
  for (i = 0; i < nthreads; i++) pthread_create (&th[i], NULL, fn, (void *) (intptr_t) i);
  for (i = 0; i < nthreads; i++) pthread_join (th[i], NULL);
  if (!strcmp (mode, "once") && init_count != 1) { char w[100]; snprintf (w, sizeof w, "the once-guarded initialiser ran %d times for %d concurrent first callers", init_count, nthreads); mt_viol ("once|init-count", w); }
  if (shared_prog) orc_program_free (shared_prog);
  vh_countf (1, "mt.%s.processes", mode);
  vh_countf ((uint64_t) nthreads, "mt.%s.threads", mode);
  for (i = 0; i < 4; i++) vh_countf (yields[i], "mt.yields.point%d", i);
  { char h[40]; snprintf (h, sizeof h, "%s:%016llx", mode, (unsigned long long) order_hash); vh_set_add ("orderings", h); }
  vh_done ();
  return errors_found ? 0 : 0;
}
