/* probe.c - replay helper: parse an .orc file, compile the first (or named)
 * function for a target, run it natively and emulated on seeded inputs and
 * print both results.  Used for triage and by `check --replay` to re-execute a
 * witness program outside the generator.
 *
 * usage: probe file.orc target n [m] [seed] [-asm] [-p name=value]... [-flags f]
 */
#define _GNU_SOURCE
#include <orc/orc.h>
#include <orc/orcparse.h>
#include <stdio.h>
#include <stdlib.h>
#include <string.h>
#include <stdint.h>
#include "vh.h"
#include "tramp.h"

int main (int argc, char **argv)
{
  char *buf; FILE *f; long len; OrcProgram **progs; char *log = NULL; int np, i, n, m = 1, show_asm = 0, diff = 0;
  uint64_t seed = 1; OrcTarget *t; unsigned flags; OrcProgram *p; OrcCompileResult res;
  OrcExecutor *exn, *exe; VhRng r; VhTramp st;
  uint8_t *an[64] = { 0 }, *ae[64] = { 0 };
  int stride[64] = { 0 };
  const char *pn[16]; long long pv[16]; int npv = 0; int have_flags = 0;
  if (argc < 4) { fprintf (stderr, "usage\n"); return 2; }
  f = fopen (argv[1], "rb"); if (!f) { perror ("open"); return 2; }
  fseek (f, 0, SEEK_END); len = ftell (f); fseek (f, 0, SEEK_SET);
  buf = malloc (len + 1); if (fread (buf, 1, len, f) != (size_t) len) return 2; buf[len] = 0; fclose (f);
  orc_init ();
  t = orc_target_get_by_name (argv[2]);
  if (!t) { fprintf (stderr, "no target %s\n", argv[2]); return 2; }
  flags = orc_target_get_default_flags (t);
  n = atoi (argv[3]);
  for (i = 4; i < argc; i++) {
    if (!strcmp (argv[i], "-asm")) show_asm = 1;
    else if (!strcmp (argv[i], "-p") && i + 1 < argc) { char *eq = strchr (argv[++i], '='); if (eq) { *eq = 0; pn[npv] = argv[i]; pv[npv++] = strtoull (eq + 1, NULL, 0); } }
    else if (!strcmp (argv[i], "-flags") && i + 1 < argc) { flags = strtoul (argv[++i], NULL, 0); have_flags = 1; }
    else if (i == 4) m = atoi (argv[i]);
    else if (i == 5) seed = strtoull (argv[i], NULL, 0);
  }
  (void) have_flags;
  np = orc_parse_full (buf, &progs, &log);
  if (log && log[0]) fprintf (stderr, "parse log: %s\n", log);
  if (np < 1) { fprintf (stderr, "no program\n"); return 2; }
  p = progs[0];
  res = orc_program_compile_full (p, t, flags);
  printf ("compile result %d (%s)\n", res, ORC_COMPILE_RESULT_IS_SUCCESSFUL (res) ? "ok" : "not native");
  if (show_asm && orc_program_get_asm_code (p)) printf ("%s\n", orc_program_get_asm_code (p));
  if (!ORC_COMPILE_RESULT_IS_SUCCESSFUL (res)) return 3;
  exn = orc_executor_new (p); exe = orc_executor_new (p);
  orc_executor_set_n (exn, n); orc_executor_set_n (exe, n);
  if (p->is_2d) { orc_executor_set_m (exn, m); orc_executor_set_m (exe, m); } else m = 1;
  vh_rng_init (&r, seed, 0);
  for (i = 0; i < ORC_N_VARIABLES; i++) {
    OrcVariable *v = &p->vars[i];
    if (!v->size) continue;
    if (v->vartype == ORC_VAR_TYPE_SRC || v->vartype == ORC_VAR_TYPE_DEST) {
      long bytes = (long) (n + 64) * v->size, j; int rowb = (int) ((bytes + 63) & ~63L);
      stride[i] = rowb;
      an[i] = aligned_alloc (64, (size_t) rowb * m + 64); ae[i] = aligned_alloc (64, (size_t) rowb * m + 64);
      for (j = 0; j < (long) rowb * m; j++) an[i][j] = ae[i][j] = (uint8_t) vh_rand (&r);
      orc_executor_set_array (exn, i, an[i]); orc_executor_set_array (exe, i, v->vartype == ORC_VAR_TYPE_SRC ? an[i] : ae[i]);
      if (p->is_2d) { orc_executor_set_stride (exn, i, rowb); orc_executor_set_stride (exe, i, rowb); }
    } else if (v->vartype == ORC_VAR_TYPE_PARAM) {
      long long val = (long long) vh_rand (&r); int k;
      for (k = 0; k < npv; k++) if (!strcmp (pn[k], v->name)) val = pv[k];
      if (v->size == 8) { orc_executor_set_param_int64 (exn, i, val); orc_executor_set_param_int64 (exe, i, val); }
      else { orc_executor_set_param (exn, i, (int) val); orc_executor_set_param (exe, i, (int) val); }
      printf ("param %s = %#llx\n", v->name, val);
    }
  }
  memset (&st, 0, sizeof st); st.mxcsr_in = 0x1f80;
  for (i = 0; i < 6; i++) st.seed[i] = 0x1111111111111111ULL * (i + 1);
  vh_tramp_call ((void (*)(void *)) p->code_exec, exn, &st);
  orc_executor_emulate (exe);
  printf ("counters %d %d %d\n", exn->counter1, exn->counter2, exn->counter3);
  if (getenv ("PROBE_DUMP")) {
    printf ("code at %p size %d\n", (void *) p->orccode->exec, p->orccode->code_size);
    /* first bytes of every array as both runs left them (triage aid) */
    for (i = 0; i < ORC_N_VARIABLES; i++) if (p->vars[i].size && (p->vars[i].vartype == ORC_VAR_TYPE_SRC || p->vars[i].vartype == ORC_VAR_TYPE_DEST)) {
      int k; printf ("%-4s native:", p->vars[i].name); for (k = 0; k < 24; k++) printf (" %02x", an[i][k]);
      if (p->vars[i].vartype == ORC_VAR_TYPE_DEST) { printf ("\n     emul. :"); for (k = 0; k < 24; k++) printf (" %02x", ae[i][k]); }
      printf ("\n");
    }
  }
  for (i = 0; i < 6; i++) if (st.out[i] != st.seed[i]) { printf ("ABI: %s changed %#llx\n", vh_tramp_regname[i], (unsigned long long) st.out[i]); diff = 1; }
  if ((st.mxcsr_out & 0xffc0) != 0x1f80) { printf ("ABI: mxcsr %#x\n", st.mxcsr_out); diff = 1; }
  for (i = 0; i < ORC_N_VARIABLES; i++) {
    OrcVariable *v = &p->vars[i]; int j, k;
    if (v->vartype == ORC_VAR_TYPE_DEST && v->size) {
      for (j = 0; j < m; j++) for (k = 0; k < n; k++) {
        uint64_t a = 0, b = 0;
        memcpy (&a, an[i] + (long) j * stride[i] + (long) k * v->size, v->size); memcpy (&b, ae[i] + (long) j * stride[i] + (long) k * v->size, v->size);
        if (a != b) { if (diff < 12) printf ("DIFF %s[%d][%d] native=%#llx emulated=%#llx\n", v->name, j, k, (unsigned long long) a, (unsigned long long) b); diff++; }
      }
      if (memcmp (an[i], ae[i], (size_t) stride[i] * m) && !diff) { printf ("DIFF outside elements in %s\n", v->name); diff++; }
    }
    if (v->vartype == ORC_VAR_TYPE_ACCUMULATOR && v->size) {
      int a = exn->accumulators[i - ORC_VAR_A1], b = exe->accumulators[i - ORC_VAR_A1];
      if (a != b) { printf ("DIFF accumulator %s native=%#x emulated=%#x\n", v->name, a, b); diff++; }
    }
  }
  printf (diff ? "RESULT differ (%d)\n" : "RESULT same\n", diff);
  return diff ? 1 : 0;
}
