/* gen.h - ProgSpec: harness-side description of an Orc program, generator
 * profiles, builder (construction API), independent .orc printer, validity
 * check, whole-program reference interpreter and shrinking helpers.
 * Header-only; needs ref.c. */
#ifndef GEN_H
#define GEN_H

#include <orc/orc.h>
#include <orc/orcparse.h>
#include "vh.h"
#include "ref.h"

enum { VK_DEST = 0, VK_SRC, VK_ACC, VK_CONST, VK_PARAM, VK_TEMP, VK_NKINDS };
static const int gen_kind_max[VK_NKINDS] = { 4, 8, 4, 8, 8, 16 };
static const char *gen_kind_prefix[VK_NKINDS] = { "d", "s", "a", "c", "p", "t" };

enum { PT_INT = 0, PT_FLOAT, PT_INT64, PT_DOUBLE };

#define GEN_MAX_VARS 64
#define GEN_MAX_INSNS 128

typedef struct {
  int kind, size, ptype, align;
  uint64_t value;           /* CONST: bit pattern */
  int orcvar;               /* ORC_VAR_* index once built */
  int special;              /* SRC: read by a special load kind (RK_*), 0 if plain */
  char name[12];
} PVar;

typedef struct {
  int op;                   /* index into ref_ops */
  int mult;                 /* 1, 2, 4 */
  int dest[2];
  int src[4];
} PInsn;

typedef struct {
  PVar vars[GEN_MAX_VARS];
  int nvars;
  PInsn insns[GEN_MAX_INSNS];
  int ninsns;
  int is2d, const_n, const_m, n_mult, n_min, n_max;
  char name[40];
} ProgSpec;

static inline const RefOp *gen_op (const PInsn *in) { return &ref_ops[in->op]; }

static int gen_op_index (const char *name)
{
  int i;
  for (i = 0; i < ref_n_ops; i++) if (!strcmp (ref_ops[i].name, name)) return i;
  return -1;
}

static int gen_count_kind (const ProgSpec *ps, int kind)
{
  int i, c = 0;
  for (i = 0; i < ps->nvars; i++) if (ps->vars[i].kind == kind) c++;
  return c;
}

static int gen_add_var (ProgSpec *ps, int kind, int size)
{
  PVar *v;
  int ord = gen_count_kind (ps, kind);
  if (ord >= gen_kind_max[kind] || ps->nvars >= GEN_MAX_VARS) return -1;
  v = &ps->vars[ps->nvars];
  memset (v, 0, sizeof *v);
  v->kind = kind; v->size = size; v->orcvar = -1;
  snprintf (v->name, sizeof v->name, "%s%d", gen_kind_prefix[kind], ord + 1);
  if (kind == VK_PARAM) v->ptype = size == 8 ? PT_INT64 : PT_INT;
  return ps->nvars++;
}

static void gen_init (ProgSpec *ps, const char *name)
{
  memset (ps, 0, sizeof *ps);
  snprintf (ps->name, sizeof ps->name, "%s", name);
}

static PInsn *gen_add_insn (ProgSpec *ps, int op, int mult)
{
  PInsn *in;
  if (ps->ninsns >= GEN_MAX_INSNS) return NULL;
  in = &ps->insns[ps->ninsns++];
  in->op = op; in->mult = mult;
  in->dest[0] = in->dest[1] = -1;
  in->src[0] = in->src[1] = in->src[2] = in->src[3] = -1;
  return in;
}

/* ---------- validity (mirrors the compiler's checks; only narrows coverage) ---------- */
static int gen_valid (const ProgSpec *ps)
{
  int written[GEN_MAX_VARS] = { 0 };
  int i, k, any_out = 0;
  for (i = 0; i < ps->ninsns; i++) {
    const PInsn *in = &ps->insns[i];
    const RefOp *op = gen_op (in);
    for (k = 0; k < 4; k++) {
      const PVar *v;
      if (!op->ssz[k]) continue;
      if (in->src[k] < 0 || in->src[k] >= ps->nvars) return 0;
      v = &ps->vars[in->src[k]];
      if (v->kind == VK_ACC) return 0;
      if (v->kind == VK_TEMP && !written[in->src[k]]) return 0;
      if (v->kind != VK_CONST && v->kind != VK_PARAM && v->size != op->ssz[k] * in->mult) return 0;
      if ((op->flags & RF_SCALAR) && (k >= 1 || op->kind == RK_LOADP) && v->kind != VK_CONST && v->kind != VK_PARAM) return 0;
      if (k == 0 && (op->kind == RK_LOAD || op->kind == RK_LOADOFF || op->kind == RK_LOADUPD || op->kind == RK_LOADUPI ||
              op->kind == RK_RESNEAR || op->kind == RK_RESLIN) && v->kind != VK_SRC && v->kind != VK_DEST) return 0;
      if (k == 0 && op->kind == RK_STORE && v->kind != VK_TEMP) return 0;
    }
    for (k = 0; k < 2; k++) {
      const PVar *v;
      if (!op->dsz[k]) continue;
      if (in->dest[k] < 0 || in->dest[k] >= ps->nvars) return 0;
      v = &ps->vars[in->dest[k]];
      if (v->kind == VK_SRC || v->kind == VK_CONST || v->kind == VK_PARAM) return 0;
      if ((op->flags & RF_ACC) ? v->kind != VK_ACC : v->kind == VK_ACC) return 0;
      if (v->size != op->dsz[k] * in->mult) return 0;
      if (op->kind == RK_STORE && v->kind != VK_DEST) return 0;
      if ((op->kind == RK_LOAD || op->kind == RK_LOADP) && v->kind != VK_TEMP) return 0;
      written[in->dest[k]] = 1;
      if (v->kind == VK_DEST || v->kind == VK_ACC) any_out = 1;
    }
    if (op->dsz[1] && in->dest[0] == in->dest[1]) return 0;
  }
  return any_out && ps->ninsns > 0;
}

/* ---------- builder: construction API ---------- */
static OrcProgram *gen_build (ProgSpec *ps)
{
  OrcProgram *p = orc_program_new ();
  int i;
  orc_program_set_name (p, ps->name);
  if (ps->is2d) orc_program_set_2d (p);
  if (ps->const_n) orc_program_set_constant_n (p, ps->const_n);
  if (ps->n_mult) orc_program_set_n_multiple (p, ps->n_mult);
  if (ps->n_min) orc_program_set_n_minimum (p, ps->n_min);
  if (ps->n_max) orc_program_set_n_maximum (p, ps->n_max);
  if (ps->const_m) orc_program_set_constant_m (p, ps->const_m);
  for (i = 0; i < ps->nvars; i++) {
    PVar *v = &ps->vars[i];
    switch (v->kind) {
      /* declared alignment through the setter, so that it does not pass through the same helper the bytecode decoder uses */
      case VK_DEST: v->orcvar = orc_program_add_destination (p, v->size, v->name); if (v->align) orc_program_set_var_alignment (p, v->orcvar, v->align); break;
      case VK_SRC: v->orcvar = orc_program_add_source (p, v->size, v->name); if (v->align) orc_program_set_var_alignment (p, v->orcvar, v->align); break;
      case VK_ACC: v->orcvar = orc_program_add_accumulator (p, v->size, v->name); break;
      case VK_CONST: v->orcvar = orc_program_add_constant_int64 (p, v->size, (orc_int64) v->value, v->name); break;
      case VK_PARAM:
        switch (v->ptype) {
          case PT_FLOAT: v->orcvar = orc_program_add_parameter_float (p, v->size, v->name); break;
          case PT_INT64: v->orcvar = orc_program_add_parameter_int64 (p, v->size, v->name); break;
          case PT_DOUBLE: v->orcvar = orc_program_add_parameter_double (p, v->size, v->name); break;
          default: v->orcvar = orc_program_add_parameter (p, v->size, v->name); break;
        }
        break;
      case VK_TEMP: v->orcvar = orc_program_add_temporary (p, v->size, v->name); break;
    }
  }
  for (i = 0; i < ps->ninsns; i++) {
    const PInsn *in = &ps->insns[i];
    const RefOp *op = gen_op (in);
    int args[4] = { 0, 0, 0, 0 }, na = 0, k;
    unsigned flags = in->mult == 2 ? ORC_INSTRUCTION_FLAG_X2 : in->mult == 4 ? ORC_INSTRUCTION_FLAG_X4 : 0;
    /* (mutated specs may lack operands: any variable slot will do, the compiler has to cope) */
    for (k = 0; k < 2; k++) if (op->dsz[k]) args[na++] = (in->dest[k] >= 0 && in->dest[k] < ps->nvars) ? ps->vars[in->dest[k]].orcvar : ORC_VAR_D1;
    for (k = 0; k < 4 && na < 4; k++) if (op->ssz[k]) args[na++] = (in->src[k] >= 0 && in->src[k] < ps->nvars) ? ps->vars[in->src[k]].orcvar : ORC_VAR_S1;
    orc_program_append_2 (p, op->name, flags, args[0], args[1], args[2], args[3]);
  }
  return p;
}

/* ---------- independent printer (.orc text) ---------- */
typedef struct {
  int crlf, tabs, spaces_after_comma, comments, blank_lines, hex, inline_consts;
} GenPrintStyle;

static int gen_print_no_l;      /* 8-byte literals without the L suffix */
static void gen_print_value (VhBuf *b, const PVar *v, int hex)
{
  /* decimal (signed, fits the parser's expectations) or hex spelling of the same bit pattern */
  if (v->size == 8) {
    /* the L suffix is optional when the size is known from the declaration / the opcode */
    if (hex) vh_buf_printf (b, "0x%llx%s", (unsigned long long) v->value, gen_print_no_l ? "" : "L");
    else vh_buf_printf (b, "%lld%s", (long long) v->value, gen_print_no_l ? "" : "L");
  } else {
    uint32_t u = (uint32_t) v->value;
    if (hex) vh_buf_printf (b, "0x%x", u);
    else vh_buf_printf (b, "%d", (int32_t) u);
  }
}

static void gen_print_orc (const ProgSpec *ps, VhBuf *b, const GenPrintStyle *st_, VhRng *r)
{
  static const GenPrintStyle dflt = { 0 };
  const GenPrintStyle *st = st_ ? st_ : &dflt;
  const char *nl = st->crlf ? "\r\n" : "\n";
  const char *sp = st->tabs ? "\t" : " ";
  int i, k;
#define MAYBE_NOISE() do { if (r && st->comments && vh_chance (r, 1, 5)) vh_buf_printf (b, "# comment %u%s", vh_randn (r, 1000), nl); \
    if (r && st->blank_lines && vh_chance (r, 1, 5)) vh_buf_printf (b, "%s", nl); } while (0)
  /* spacing noise at the ends of lines: blanks (also two or more) before the line end, with or without a trailing comment; blanks before the first token */
#define EOL() do { if (r && st->comments) { unsigned z_ = vh_randn (r, 8); if (z_ < 3) { unsigned k_ = 1 + vh_randn (r, 3); while (k_--) vh_buf_printf (b, "%s", vh_chance (r, 1, 4) ? "\t" : " "); } \
      else if (z_ == 3) vh_buf_printf (b, "  # c%u", vh_randn (r, 100)); } vh_buf_printf (b, "%s", nl); } while (0)
#define BOL() do { if (r && st->comments && vh_chance (r, 1, 6)) vh_buf_printf (b, "%s", vh_chance (r, 1, 2) ? "  " : "\t"); } while (0)
  vh_buf_printf (b, ".function%s%s%s", sp, ps->name, nl);
  if (ps->is2d) vh_buf_printf (b, ".flags%s2d%s", sp, nl);
  if (ps->const_n) vh_buf_printf (b, ".n%s%d%s", sp, ps->const_n, nl);
  if (ps->n_mult) vh_buf_printf (b, ".n%smult%s%d%s", sp, sp, ps->n_mult, nl);
  if (ps->n_min) vh_buf_printf (b, ".n%smin%s%d%s", sp, sp, ps->n_min, nl);
  if (ps->n_max) vh_buf_printf (b, ".n%smax%s%d%s", sp, sp, ps->n_max, nl);
  if (ps->const_m) vh_buf_printf (b, ".m%s%d%s", sp, ps->const_m, nl);
  for (i = 0; i < ps->nvars; i++) {
    const PVar *v = &ps->vars[i];
    MAYBE_NOISE ();
    if (!(st->inline_consts && v->kind == VK_CONST)) BOL ();
    switch (v->kind) {
      case VK_DEST:
        vh_buf_printf (b, ".dest%s%d%s%s", sp, v->size, sp, v->name);
        if (v->align) vh_buf_printf (b, "%salign%s%d", sp, sp, v->align);
        break;
      case VK_SRC:
        vh_buf_printf (b, ".source%s%d%s%s", sp, v->size, sp, v->name);
        if (v->align) vh_buf_printf (b, "%salign%s%d", sp, sp, v->align);
        break;
      case VK_ACC: vh_buf_printf (b, ".accumulator%s%d%s%s", sp, v->size, sp, v->name); break;
      case VK_CONST:
        if (st->inline_consts) continue;          /* written as literal operands below */
        vh_buf_printf (b, ".const%s%d%s%s%s", sp, v->size, sp, v->name, sp);
        gen_print_value (b, v, st->hex);
        break;
      case VK_PARAM:
        vh_buf_printf (b, "%s%s%d%s%s", v->ptype == PT_FLOAT ? ".floatparam" : v->ptype == PT_INT64 ? ".longparam" :
            v->ptype == PT_DOUBLE ? ".doubleparam" : ".param", sp, v->size, sp, v->name);
        break;
      case VK_TEMP: vh_buf_printf (b, ".temp%s%d%s%s", sp, v->size, sp, v->name); break;
    }
    EOL ();
  }
  for (i = 0; i < ps->ninsns; i++) {
    const PInsn *in = &ps->insns[i];
    const RefOp *op = gen_op (in);
    int first = 1;
    MAYBE_NOISE ();
    BOL ();
    if (in->mult > 1) vh_buf_printf (b, "x%d%s", in->mult, sp);
    vh_buf_printf (b, "%s%s", op->name, sp);
    for (k = 0; k < 2; k++) if (op->dsz[k]) {
      vh_buf_printf (b, "%s%s", first ? "" : (st->spaces_after_comma ? ", " : ","), in->dest[k] >= 0 ? ps->vars[in->dest[k]].name : "?"); first = 0;
    }
    for (k = 0; k < 4; k++) if (op->ssz[k]) {
      if (st->inline_consts && in->src[k] >= 0 && ps->vars[in->src[k]].kind == VK_CONST) {
        vh_buf_printf (b, "%s", first ? "" : (st->spaces_after_comma ? ", " : ","));
        gen_print_value (b, &ps->vars[in->src[k]], st->hex);
      } else
      vh_buf_printf (b, "%s%s", first ? "" : (st->spaces_after_comma ? ", " : ","), in->src[k] >= 0 ? ps->vars[in->src[k]].name : "?");
      first = 0;
    }
    EOL ();
  }
#undef MAYBE_NOISE
#undef EOL
#undef BOL
}

/* JSON description for replay/evidence */
static void gen_to_json (const ProgSpec *ps, VhBuf *b)
{
  VhBuf t = { 0 };
  GenPrintStyle st = { 0 };
  st.spaces_after_comma = 1; st.hex = 1;
  gen_print_orc (ps, &t, &st, NULL);
  vh_buf_jstr (b, t.p ? t.p : "");
  free (t.p);
}

/* ---------- run description and reference interpreter ---------- */
typedef struct {
  int n, m;
  uint8_t *arr[GEN_MAX_VARS];     /* per spec var (DEST/SRC): pointer to element 0 of row 0 */
  int stride[GEN_MAX_VARS];
  uint64_t param[GEN_MAX_VARS];   /* PARAM bit patterns: size<8: low 32 bits significant */
  uint32_t acc[4];                /* out: by accumulator ordinal */
} RunIO;

static inline uint64_t gen_rd (const uint8_t *p, int size)
{
  uint64_t v = 0; memcpy (&v, p, size); return v;
}
static inline void gen_wr (uint8_t *p, int size, uint64_t v) { memcpy (p, &v, size); }

static int gen_acc_ordinal (const ProgSpec *ps, int var)
{
  int i, c = 0;
  for (i = 0; i < var; i++) if (ps->vars[i].kind == VK_ACC) c++;
  return c;
}

/* value of a const/param operand as the opcode sees it */
static inline uint64_t gen_scalar_value (const PVar *v, const RunIO *io, int varidx)
{
  if (v->kind == VK_CONST) return v->value;
  if (v->size == 8) return io->param[varidx];
  return (uint64_t) (int64_t) (int32_t) (uint32_t) io->param[varidx];
}

/* Interprets the program per element, instruction-minor. */
static void gen_interp (const ProgSpec *ps, RunIO *io)
{
  int j, i, q, k;
  uint64_t val[GEN_MAX_VARS];
  memset (io->acc, 0, sizeof io->acc);
  for (j = 0; j < io->m; j++) {
    for (i = 0; i < io->n; i++) {
      for (q = 0; q < ps->ninsns; q++) {
        const PInsn *in = &ps->insns[q];
        const RefOp *op = gen_op (in);
        uint64_t s[4] = { 0, 0, 0, 0 }, d[2] = { 0, 0 };
        for (k = 0; k < 4; k++) {
          const PVar *v; int vi = in->src[k]; int esz;
          if (!op->ssz[k]) continue;
          v = &ps->vars[vi];
          esz = op->ssz[k] * in->mult;
          if (v->kind == VK_TEMP) s[k] = val[vi];
          else if (v->kind == VK_CONST || v->kind == VK_PARAM) {
            uint64_t sv = gen_scalar_value (v, io, vi);
            if ((op->flags & RF_SCALAR) && k >= 1) s[k] = sv;
            else {
              int l; uint64_t e = sv & ref_mask (op->ssz[k]);
              s[k] = 0;
              for (l = 0; l < in->mult; l++) s[k] |= e << (8 * op->ssz[k] * l);
            }
          } else {
            const uint8_t *row = io->arr[vi] + (long) io->stride[vi] * j;
            long idx = i;
            if (k == 0) switch (op->kind) {
              case RK_LOADOFF: idx = i + (int64_t) gen_scalar_value (&ps->vars[in->src[1]], io, in->src[1]); break;
              case RK_LOADUPD: idx = i >> 1; break;
              case RK_LOADUPI: idx = i >> 1; break;
              case RK_RESNEAR: case RK_RESLIN:
                idx = ((int64_t) gen_scalar_value (&ps->vars[in->src[1]], io, in->src[1]) +
                    (int64_t) i * (int64_t) gen_scalar_value (&ps->vars[in->src[2]], io, in->src[2])) >> 16;
                break;
              default: break;
            }
            s[k] = gen_rd (row + idx * esz, esz);
            if (k == 0 && op->kind == RK_LOADUPI && (i & 1)) {
              uint64_t nx = gen_rd (row + (idx + 1) * esz, esz);
              s[k] = (s[k] + nx + 1) >> 1;
            }
            if (k == 0 && op->kind == RK_RESLIN) {
              int64_t t = (int64_t) gen_scalar_value (&ps->vars[in->src[1]], io, in->src[1]) +
                  (int64_t) i * (int64_t) gen_scalar_value (&ps->vars[in->src[2]], io, in->src[2]);
              unsigned f = (unsigned) ((t >> 8) & 0xff);
              uint64_t nx = gen_rd (row + (idx + 1) * esz, esz), a = s[k], r = 0; int bt;
              for (bt = 0; bt < esz; bt++) {
                unsigned x = (unsigned) ((a >> (8 * bt)) & 0xff), y = (unsigned) ((nx >> (8 * bt)) & 0xff);
                r |= (uint64_t) (((x * (256 - f) + y * f) >> 8) & 0xff) << (8 * bt);
              }
              s[k] = r;
            }
          }
        }
        switch (op->kind) {
          case RK_ELEM: case RK_ACC: ref_apply (op, in->mult, s, d); break;
          default: d[0] = s[0]; break;   /* loads, loadp, store: move */
        }
        for (k = 0; k < 2; k++) {
          const PVar *v; int vi = in->dest[k]; int esz;
          if (!op->dsz[k]) continue;
          v = &ps->vars[vi];
          esz = op->dsz[k] * in->mult;
          if (v->kind == VK_TEMP) val[vi] = d[k] & ref_mask (esz);
          else if (v->kind == VK_DEST) gen_wr (io->arr[vi] + (long) io->stride[vi] * j + (long) i * esz, esz, d[k]);
          else if (v->kind == VK_ACC) {
            int o = gen_acc_ordinal (ps, vi);
            io->acc[o] += (uint32_t) d[k];
            if (v->size == 2) io->acc[o] &= 0xffff;
          }
        }
      }
    }
  }
}

/* Entitled index range of an array variable for one row: [lo, hi) in elements.
 * Union over every instruction that touches it. Returns 0 if never touched. */
static int gen_entitled (const ProgSpec *ps, const RunIO *io, int var, long *lo, long *hi)
{
  int q, k, touched = 0;
  long L = 0, H = 0;
  for (q = 0; q < ps->ninsns; q++) {
    const PInsn *in = &ps->insns[q];
    const RefOp *op = gen_op (in);
    for (k = 0; k < 4; k++) {
      long a = 0, b = io->n;
      if (!op->ssz[k] || in->src[k] != var) continue;
      if (k == 0 && io->n > 0) switch (op->kind) {
        case RK_LOADOFF: { long off = (long) (int64_t) gen_scalar_value (&ps->vars[in->src[1]], io, in->src[1]); a = off; b = off + io->n; break; }
        case RK_LOADUPD: a = 0; b = ((io->n - 1) >> 1) + 1; break;
        case RK_LOADUPI: a = 0; b = ((io->n - 1) >> 1) + 1; if (io->n >= 2) { long last_odd = (io->n - 1) | 1; if (last_odd > io->n - 1) last_odd -= 2; b = (last_odd >> 1) + 2 > b ? (last_odd >> 1) + 2 : b; } break;
        case RK_RESNEAR: case RK_RESLIN: {
          int64_t bb = (int64_t) gen_scalar_value (&ps->vars[in->src[1]], io, in->src[1]);
          int64_t cc = (int64_t) gen_scalar_value (&ps->vars[in->src[2]], io, in->src[2]);
          int64_t i0 = bb >> 16, i1 = (bb + cc * (io->n - 1)) >> 16;
          a = i0 < i1 ? i0 : i1; b = (i0 < i1 ? i1 : i0) + 1 + (op->kind == RK_RESLIN ? 1 : 0);
          break; }
        default: break;
      }
      if (io->n == 0) { a = 0; b = 0; }
      if (!touched) { L = a; H = b; touched = 1; } else { if (a < L) L = a; if (b > H) H = b; }
    }
    for (k = 0; k < 2; k++) {
      if (!op->dsz[k] || in->dest[k] != var) continue;
      if (!touched) { L = 0; H = io->n; touched = 1; } else { if (0 < L) L = 0; if (io->n > H) H = io->n; }
    }
  }
  *lo = L; *hi = H;
  return touched;
}

/* ---------- operand value pools ---------- */
static const uint64_t gen_boundary64[] = {
  0, 1, 2, 3, 0x7f, 0x80, 0x81, 0xff, 0x100, 0x7fff, 0x8000, 0x8001, 0xffff, 0x10000, 0xfffe, 0xfe, 0x7e,
  0x7fffffffULL, 0x80000000ULL, 0x80000001ULL, 0xffffffffULL, 0xfffffffeULL, 0x100000000ULL,
  0x7fffffffffffffffULL, 0x8000000000000000ULL, 0x8000000000000001ULL, 0xffffffffffffffffULL, 0xfffffffffffffffeULL,
  0x0101010101010101ULL, 0x8080808080808080ULL, 0x7f7f7f7f7f7f7f7fULL, 0x00ff00ff00ff00ffULL, 0xff00ff00ff00ff00ULL,
  0x5555555555555555ULL, 0xaaaaaaaaaaaaaaaaULL, 0x0000ffff0000ffffULL, 0xffff0000ffff0000ULL, 0x00000000ffffffffULL,
  0x8000800080008000ULL, 0x7fff7fff7fff7fffULL, 0x8000000080000000ULL, 0x7fffffff7fffffffULL
};
#define GEN_NBOUNDARY ((int) (sizeof (gen_boundary64) / sizeof (gen_boundary64[0])))

static uint64_t gen_rand_value (VhRng *r, int size)
{
  uint64_t v;
  switch (vh_randn (r, 4)) {
    case 0: v = gen_boundary64[vh_randn (r, GEN_NBOUNDARY)]; break;
    case 1: { /* boundary of the element size, +-small */
      int bits = size * 8; uint64_t base;
      switch (vh_randn (r, 4)) { case 0: base = 0; break; case 1: base = (uint64_t) 1 << (bits - 1); break;
        case 2: base = ((uint64_t) 1 << (bits - 1)) - 1; break; default: base = ref_mask (size); break; }
      v = base + (uint64_t) (int64_t) ((int) vh_randn (r, 5) - 2);
      break; }
    default: v = vh_rand (r); break;
  }
  return v & ref_mask (size);
}

/* fill n elements of given size with a mix of boundary and random values */
static void gen_fill (VhRng *r, uint8_t *p, long nbytes, int size)
{
  long i;
  for (i = 0; i + size <= nbytes; i += size) {
    uint64_t v = gen_rand_value (r, size);
    memcpy (p + i, &v, size);
  }
  for (; i < nbytes; i++) p[i] = (uint8_t) vh_rand (r);
}

/* floats: structured set */
static const uint32_t gen_float_set[] = {
  0x00000000, 0x80000000, 0x00000001, 0x80000001, 0x007fffff, 0x807fffff, 0x00400000, 0x00800000, 0x80800000,
  0x00800001, 0x3f800000, 0xbf800000, 0x3f000000, 0x3fc00000, 0x40000000, 0x40400000, 0x4b000000, 0x4b000001,
  0x4b7fffff, 0x4b800000, 0x4b800001, 0x4effffff, 0x4f000000, 0xcf000000, 0xcf000001, 0x4f000001, 0x4f800000,
  0x5f000000, 0xdf000000, 0x7f7fffff, 0xff7fffff, 0x7f800000, 0xff800000, 0x7fc00000, 0xffc00000, 0x7f800001,
  0x7fa00000, 0x3f7fffff, 0x3f800001, 0x3eaaaaab, 0x40490fdb, 0x33800000, 0x34000000, 0x0d800000, 0x7e800000,
  0x3fffffff, 0x40200000, 0x40600000, 0xc0200000, 0x00ffffff, 0x01000000, 0x4affffff, 0x4a800001
};
#define GEN_NFLOATSET ((int) (sizeof (gen_float_set) / sizeof (gen_float_set[0])))
static const uint64_t gen_double_set[] = {
  0x0000000000000000ULL, 0x8000000000000000ULL, 0x0000000000000001ULL, 0x8000000000000001ULL, 0x000fffffffffffffULL,
  0x800fffffffffffffULL, 0x0008000000000000ULL, 0x0010000000000000ULL, 0x8010000000000000ULL, 0x0010000000000001ULL,
  0x3ff0000000000000ULL, 0xbff0000000000000ULL, 0x3fe0000000000000ULL, 0x3ff8000000000000ULL, 0x4000000000000000ULL,
  0x4008000000000000ULL, 0x4330000000000000ULL, 0x4330000000000001ULL, 0x433fffffffffffffULL, 0x4340000000000000ULL,
  0x41dfffffffc00000ULL, 0x41e0000000000000ULL, 0xc1e0000000000000ULL, 0xc1e0000000200000ULL, 0x41dfffffffe00000ULL,
  0x43e0000000000000ULL, 0xc3e0000000000000ULL, 0x7fefffffffffffffULL, 0xffefffffffffffffULL, 0x7ff0000000000000ULL,
  0xfff0000000000000ULL, 0x7ff8000000000000ULL, 0xfff8000000000000ULL, 0x7ff0000000000001ULL, 0x3fefffffffffffffULL,
  0x3ff0000000000001ULL, 0x3fd5555555555555ULL, 0x400921fb54442d18ULL, 0x36a0000000000000ULL, 0x380fffffffffffffULL,
  0x3810000000000000ULL, 0x47efffffe0000000ULL, 0x47effffff0000000ULL, 0x47f0000000000000ULL, 0x3690000000000000ULL,
  0x36a0000000000001ULL, 0x4004000000000000ULL, 0x400c000000000000ULL, 0xc004000000000000ULL, 0x41dfffffffffffffULL
};
#define GEN_NDOUBLESET ((int) (sizeof (gen_double_set) / sizeof (gen_double_set[0])))

static uint64_t gen_rand_float (VhRng *r, int size, int finite_only)
{
  for (;;) {
    uint64_t v;
    if (size == 4) {
      if (vh_chance (r, 1, 2)) v = gen_float_set[vh_randn (r, GEN_NFLOATSET)];
      else {
        /* random normal in a moderate exponent range, random sign */
        uint32_t e = 100 + vh_randn (r, 60);
        v = ((uint32_t) vh_rand (r) & 0x807fffffu) | (e << 23);
        if (vh_chance (r, 1, 8)) v = (uint32_t) vh_rand (r);
      }
      if (finite_only && (ref_isnan32 ((uint32_t) v) || ref_isinf32 ((uint32_t) v))) continue;
    } else {
      if (vh_chance (r, 1, 2)) v = gen_double_set[vh_randn (r, GEN_NDOUBLESET)];
      else {
        uint64_t e = 1000 + vh_randn (r, 50);
        v = (vh_rand (r) & 0x800fffffffffffffULL) | (e << 52);
        if (vh_chance (r, 1, 8)) v = vh_rand (r);
      }
      if (finite_only && (ref_isnan64 (v) || ref_isinf64 (v))) continue;
    }
    return v;
  }
}

/* ---------- generator ---------- */
#define GP_INT     1   /* integer opcodes */
#define GP_FLOAT   2   /* float/double opcodes */
#define GP_SPECIAL 4   /* loadoff/loadupd/loadupi/ldres */
#define GP_ACC     8
#define GP_2D      16
#define GP_HINTS   32  /* alignment / n hints */
#define GP_EXPLICIT_LS 64 /* explicit load/store/loadp instructions */

static int gen_op_allowed (const RefOp *op, unsigned profile)
{
  int isf = (op->flags & (RF_FLOAT_S | RF_FLOAT_D)) != 0;
  if (op->kind == RK_LOADOFF || op->kind == RK_LOADUPD || op->kind == RK_LOADUPI || op->kind == RK_RESNEAR || op->kind == RK_RESLIN)
    return (profile & GP_SPECIAL) != 0;
  if (op->kind == RK_LOAD || op->kind == RK_STORE || op->kind == RK_LOADP) return (profile & GP_EXPLICIT_LS) != 0;
  if (op->kind == RK_ACC) return (profile & GP_ACC) != 0;
  if (isf) return (profile & GP_FLOAT) != 0;
  return (profile & GP_INT) != 0;
}

/* scalar operand domain: shifts 0..width-1 */
static uint64_t gen_scalar_domain (VhRng *r, const RefOp *op, int k)
{
  if (op->kind == RK_ELEM && (op->flags & RF_SCALAR)) return vh_randn (r, op->ssz[0] * 8);
  (void) k;
  return 0;
}

static int gen_find_or_add_const (ProgSpec *ps, VhRng *r, int size, uint64_t value, int force_value)
{
  int i;
  /* reuse an existing constant of that size sometimes (shared constants) */
  if (!force_value && vh_chance (r, 1, 3)) {
    int cand[8], nc = 0;
    for (i = 0; i < ps->nvars; i++) if (ps->vars[i].kind == VK_CONST && ps->vars[i].size == size) cand[nc++] = i;
    if (nc) return cand[vh_randn (r, nc)];
  }
  if (force_value) {
    for (i = 0; i < ps->nvars; i++) if (ps->vars[i].kind == VK_CONST && ps->vars[i].size == size && ps->vars[i].value == value) return i;
  }
  i = gen_add_var (ps, VK_CONST, size);
  if (i >= 0) ps->vars[i].value = value;
  return i;
}

/* pick a source operand of element size esz (already multiplied); may add variables. returns var index or -1 */
static int gen_pick_src (ProgSpec *ps, VhRng *r, const RefOp *op, int k, int mult, unsigned profile, const int *written, int allow_array)
{
  int esz = op->ssz[k] * mult;
  int isf = (op->flags & RF_FLOAT_S) != 0;
  int i, tries;
  if ((op->flags & RF_SCALAR) && (k >= 1 || op->kind == RK_LOADP)) {
    /* const or param with value in the opcode's domain; params get their value at run time from the same domain */
    if (vh_chance (r, 1, 2)) {
      uint64_t v = (op->kind == RK_LOADP) ? gen_rand_value (r, op->ssz[k]) : gen_scalar_domain (r, op, k);
      return gen_find_or_add_const (ps, r, op->ssz[k], v, 1);
    }
    for (i = 0; i < ps->nvars; i++) if (ps->vars[i].kind == VK_PARAM && ps->vars[i].size == op->ssz[k] && vh_chance (r, 1, 2)) return i;
    i = gen_add_var (ps, VK_PARAM, op->ssz[k]);
    if (i >= 0) return i;
    return gen_find_or_add_const (ps, r, op->ssz[k], gen_scalar_domain (r, op, k), 1);
  }
  for (tries = 0; tries < 8; tries++) {
    int c = vh_randn (r, 100);
    if (c < 40) {
      /* existing temp of that size */
      int cand[GEN_MAX_VARS], nc = 0;
      for (i = 0; i < ps->nvars; i++) if (ps->vars[i].kind == VK_TEMP && ps->vars[i].size == esz && written[i]) cand[nc++] = i;
      if (nc) return cand[vh_randn (r, nc)];
    } else if (c < 75 && allow_array) {
      int cand[GEN_MAX_VARS], nc = 0;
      for (i = 0; i < ps->nvars; i++) if (ps->vars[i].kind == VK_SRC && ps->vars[i].size == esz && !ps->vars[i].special) cand[nc++] = i;
      if (nc && vh_chance (r, 1, 2)) return cand[vh_randn (r, nc)];
      i = gen_add_var (ps, VK_SRC, esz);
      if (i >= 0) return i;
      if (nc) return cand[vh_randn (r, nc)];
    } else if (c < 82 && allow_array) {
      /* read back a destination (in-place) */
      int cand[GEN_MAX_VARS], nc = 0;
      for (i = 0; i < ps->nvars; i++) if (ps->vars[i].kind == VK_DEST && ps->vars[i].size == esz) cand[nc++] = i;
      if (nc) return cand[vh_randn (r, nc)];
      if (vh_chance (r, 1, 2)) { i = gen_add_var (ps, VK_DEST, esz); if (i >= 0) return i; }
    } else if (c < 92) {
      uint64_t v = isf ? gen_rand_float (r, op->ssz[k], 1) : gen_rand_value (r, op->ssz[k]);
      i = gen_find_or_add_const (ps, r, op->ssz[k], v, 0);
      if (i >= 0) return i;
    } else {
      for (i = 0; i < ps->nvars; i++) if (ps->vars[i].kind == VK_PARAM && ps->vars[i].size == op->ssz[k] &&
          (ps->vars[i].ptype == PT_FLOAT || ps->vars[i].ptype == PT_DOUBLE) == isf && vh_chance (r, 1, 2)) return i;
      i = gen_add_var (ps, VK_PARAM, op->ssz[k]);
      if (i >= 0) {
        if (isf) ps->vars[i].ptype = op->ssz[k] == 8 ? PT_DOUBLE : PT_FLOAT;
        return i;
      }
    }
  }
  if (allow_array) {
    i = gen_add_var (ps, VK_SRC, esz);
    if (i >= 0) return i;
    for (i = 0; i < ps->nvars; i++) if (ps->vars[i].kind == VK_SRC && ps->vars[i].size == esz && !ps->vars[i].special) return i;
  }
  for (i = 0; i < ps->nvars; i++) if (ps->vars[i].kind == VK_TEMP && ps->vars[i].size == esz && written[i]) return i;
  return gen_find_or_add_const (ps, r, op->ssz[k], gen_rand_value (r, op->ssz[k]), 0);
}

static int gen_pick_dest (ProgSpec *ps, VhRng *r, int esz, int is_acc, int prefer_out, const int *written)
{
  int i, c;
  (void) written;
  if (is_acc) {
    int cand[4], nc = 0;
    for (i = 0; i < ps->nvars; i++) if (ps->vars[i].kind == VK_ACC && ps->vars[i].size == esz) cand[nc++] = i;
    if (nc && vh_chance (r, 1, 2)) return cand[vh_randn (r, nc)];
    i = gen_add_var (ps, VK_ACC, esz);
    if (i >= 0) return i;
    return nc ? cand[vh_randn (r, nc)] : -1;
  }
  c = vh_randn (r, 100);
  if (prefer_out || c < 25) {
    int cand[4], nc = 0;
    for (i = 0; i < ps->nvars; i++) if (ps->vars[i].kind == VK_DEST && ps->vars[i].size == esz) cand[nc++] = i;
    if (nc && vh_chance (r, 1, 3)) return cand[vh_randn (r, nc)];
    i = gen_add_var (ps, VK_DEST, esz);
    if (i >= 0) return i;
    if (nc) return cand[vh_randn (r, nc)];
  }
  if (c < 50) {
    /* reuse an existing temp (forces renaming in the compiler) */
    int cand[GEN_MAX_VARS], nc = 0;
    for (i = 0; i < ps->nvars; i++) if (ps->vars[i].kind == VK_TEMP && ps->vars[i].size == esz) cand[nc++] = i;
    if (nc) return cand[vh_randn (r, nc)];
  }
  i = gen_add_var (ps, VK_TEMP, esz);
  if (i >= 0) return i;
  for (i = 0; i < ps->nvars; i++) if (ps->vars[i].kind == VK_TEMP && ps->vars[i].size == esz) return i;
  return -1;
}

static const char *gen_copy_name (int size) { return size == 1 ? "copyb" : size == 2 ? "copyw" : size == 4 ? "copyl" : "copyq"; }

/* random program: len instructions (before the final stores) */
static int gen_random (ProgSpec *ps, VhRng *r, unsigned profile, int len)
{
  int written[GEN_MAX_VARS] = { 0 };
  int consumed[GEN_MAX_VARS] = { 0 };
  int q, k, i, guard = 0;
  int allowed[256], na = 0;
  for (i = 0; i < ref_n_ops && na < 256; i++) if (gen_op_allowed (&ref_ops[i], profile)) allowed[na++] = i;
  if (!na) return 0;
  if ((profile & GP_2D) && vh_chance (r, 1, 3)) ps->is2d = 1;
  for (q = 0; q < len && guard < len * 20; guard++) {
    int opi = allowed[vh_randn (r, na)];
    const RefOp *op = &ref_ops[opi];
    int maxsz = 0, mult = 1, ok = 1;
    PInsn in;
    for (k = 0; k < 4; k++) if (op->ssz[k] > maxsz && !((op->flags & RF_SCALAR) && k >= 1)) maxsz = op->ssz[k];
    for (k = 0; k < 2; k++) if (op->dsz[k] > maxsz) maxsz = op->dsz[k];
    if (op->kind == RK_ELEM && vh_chance (r, 1, 4)) {
      if (maxsz * 4 <= 8 && vh_chance (r, 1, 2)) mult = 4; else if (maxsz * 2 <= 8) mult = 2;
    }
    memset (&in, 0, sizeof in);
    in.op = opi; in.mult = mult; in.dest[0] = in.dest[1] = -1; in.src[0] = in.src[1] = in.src[2] = in.src[3] = -1;
    for (k = 0; k < 4 && ok; k++) {
      if (!op->ssz[k]) continue;
      if (k == 0 && (op->kind == RK_LOAD || op->kind == RK_LOADOFF || op->kind == RK_LOADUPD || op->kind == RK_LOADUPI ||
              op->kind == RK_RESNEAR || op->kind == RK_RESLIN)) {
        int v = -1;
        if (op->kind == RK_LOAD) {
          int cand[GEN_MAX_VARS], nc = 0;
          for (i = 0; i < ps->nvars; i++) if (ps->vars[i].kind == VK_SRC && ps->vars[i].size == op->ssz[0] && !ps->vars[i].special) cand[nc++] = i;
          if (nc && vh_chance (r, 1, 2)) v = cand[vh_randn (r, nc)];
        }
        if (v < 0) { v = gen_add_var (ps, VK_SRC, op->ssz[0]); if (v >= 0 && op->kind != RK_LOAD) ps->vars[v].special = op->kind; }
        if (v < 0) ok = 0;
        in.src[0] = v;
      } else if (k == 0 && op->kind == RK_STORE) {
        int cand[GEN_MAX_VARS], nc = 0;
        for (i = 0; i < ps->nvars; i++) if (ps->vars[i].kind == VK_TEMP && ps->vars[i].size == op->ssz[0] && written[i]) cand[nc++] = i;
        if (!nc) ok = 0; else in.src[0] = cand[vh_randn (r, nc)];
      } else if (op->kind == RK_LOADOFF || op->kind == RK_RESNEAR || op->kind == RK_RESLIN) {
        /* offset / resampling parameters: params, valued by the runner inside the allocated source; or constants */
        int v = -1;
        if (vh_chance (r, 1, 3)) {
          uint64_t cv = op->kind == RK_LOADOFF ? (uint64_t) (int64_t) ((int) vh_randn (r, 41) - 20)       /* as orc_program_add_constant (int) stores it */
              : k == 1 ? vh_randn (r, 4u << 16)
              : (vh_chance (r, 1, 4) ? (1u << 16) : vh_chance (r, 1, 4) ? 70000u : vh_randn (r, (1u << 16) + 200));
          v = gen_add_var (ps, VK_CONST, 4);
          if (v >= 0) ps->vars[v].value = cv;
        }
        if (v < 0) v = gen_add_var (ps, VK_PARAM, 4);
        if (v < 0) ok = 0;
        in.src[k] = v;
      } else {
        in.src[k] = gen_pick_src (ps, r, op, k, mult, profile, written, op->kind != RK_ACC || 1);
        if (in.src[k] < 0) ok = 0;
      }
    }
    /* the compiler needs at least one non-scalar... nothing; proceed */
    for (k = 0; k < 2 && ok; k++) {
      if (!op->dsz[k]) continue;
      if (op->kind == RK_STORE) {
        in.dest[k] = gen_pick_dest (ps, r, op->dsz[k] * mult, 0, 1, written);
        if (in.dest[k] >= 0 && ps->vars[in.dest[k]].kind != VK_DEST) ok = 0;
      } else if (op->kind == RK_LOAD || op->kind == RK_LOADP || op->kind == RK_LOADOFF || op->kind == RK_LOADUPD ||
          op->kind == RK_LOADUPI || op->kind == RK_RESNEAR || op->kind == RK_RESLIN) {
        in.dest[k] = gen_add_var (ps, VK_TEMP, op->dsz[k] * mult);
        if (in.dest[k] < 0) {
          for (i = 0; i < ps->nvars; i++) if (ps->vars[i].kind == VK_TEMP && ps->vars[i].size == op->dsz[k] * mult) { in.dest[k] = i; break; }
        }
      } else {
        in.dest[k] = gen_pick_dest (ps, r, op->dsz[k] * mult, (op->flags & RF_ACC) != 0, q == len - 1, written);
      }
      if (in.dest[k] < 0) ok = 0;
      if (k == 1 && in.dest[1] == in.dest[0]) ok = 0;
    }
    if (!ok) continue;
    ps->insns[ps->ninsns++] = in;
    for (k = 0; k < 4; k++) if (in.src[k] >= 0) consumed[in.src[k]] = 1;
    for (k = 0; k < 2; k++) if (in.dest[k] >= 0) { written[in.dest[k]] = 1; consumed[in.dest[k]] = 0; }
    q++;
  }
  /* store live temps that nobody consumed */
  for (i = 0; i < ps->nvars && ps->ninsns < GEN_MAX_INSNS - 1; i++) {
    if (ps->vars[i].kind == VK_TEMP && written[i] && !consumed[i]) {
      int d = gen_add_var (ps, VK_DEST, ps->vars[i].size);
      PInsn *in;
      if (d < 0) continue;
      in = gen_add_insn (ps, gen_op_index (gen_copy_name (ps->vars[i].size)), 1);
      in->dest[0] = d; in->src[0] = i;
    }
  }
  if ((profile & GP_HINTS) && vh_chance (r, 1, 4)) {
    for (i = 0; i < ps->nvars; i++) if ((ps->vars[i].kind == VK_DEST || ps->vars[i].kind == VK_SRC) && !ps->vars[i].special && vh_chance (r, 1, 2))
      ps->vars[i].align = 1 << (3 + vh_randn (r, 3));   /* 8, 16, 32 */
  }
  if ((profile & GP_HINTS) && vh_chance (r, 1, 6)) {
    switch (vh_randn (r, 4)) {
      case 0: ps->const_n = 1 + vh_randn (r, 100); break;
      case 1: ps->n_mult = 1 << (1 + vh_randn (r, 4)); break;
      case 2: ps->n_min = 1 + vh_randn (r, 40); break;
      default: ps->n_max = 1 + vh_randn (r, 200); break;
    }
  }
  if (ps->is2d && (profile & GP_HINTS) && vh_chance (r, 1, 5)) ps->const_m = 1 + vh_randn (r, 4);
  return gen_valid (ps);
}

/* ---------- shrinking helpers ---------- */
/* remove instruction q; returns 1 if the result is still valid */
static int gen_delete_insn (ProgSpec *ps, int q)
{
  int i;
  for (i = q; i + 1 < ps->ninsns; i++) ps->insns[i] = ps->insns[i + 1];
  ps->ninsns--;
  return gen_valid (ps);
}

/* drop variables no instruction refers to (keeps relative order, renames) */
static void gen_compact_vars (ProgSpec *ps)
{
  int used[GEN_MAX_VARS] = { 0 }, map[GEN_MAX_VARS];
  int i, k, n = 0;
  int ord[VK_NKINDS] = { 0 };
  for (i = 0; i < ps->ninsns; i++) {
    for (k = 0; k < 2; k++) if (ps->insns[i].dest[k] >= 0) used[ps->insns[i].dest[k]] = 1;
    for (k = 0; k < 4; k++) if (ps->insns[i].src[k] >= 0) used[ps->insns[i].src[k]] = 1;
  }
  for (i = 0; i < ps->nvars; i++) {
    if (used[i]) {
      map[i] = n; ps->vars[n] = ps->vars[i];
      snprintf (ps->vars[n].name, sizeof ps->vars[n].name, "%s%d", gen_kind_prefix[ps->vars[n].kind], ++ord[ps->vars[n].kind]);
      n++;
    } else map[i] = -1;
  }
  ps->nvars = n;
  for (i = 0; i < ps->ninsns; i++) {
    for (k = 0; k < 2; k++) if (ps->insns[i].dest[k] >= 0) ps->insns[i].dest[k] = map[ps->insns[i].dest[k]];
    for (k = 0; k < 4; k++) if (ps->insns[i].src[k] >= 0) ps->insns[i].src[k] = map[ps->insns[i].src[k]];
  }
}

#endif
