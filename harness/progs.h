/* progs.h - shared enumeration of generated programs: single-opcode forms,
 * producer->consumer pairs; used by exec.c, asmdump.c and others. */
#ifndef PROGS_H
#define PROGS_H
#include "gen.h"

/* ------------------------------------------------------------------ program enumeration */
typedef struct { int op, mult, form; } SingleForm;
/* form: bit0..1: second-operand kind (0 array, 1 const, 2 param); bit2: in-place dest; bit3: via temps (explicit chain);
 * bit4: src1==src2 */
static SingleForm *single_forms;
static int n_single;

static int op_maxsz (const RefOp *op)
{
  int k, m = 0;
  for (k = 0; k < 4; k++) if (op->ssz[k] > m && !((op->flags & RF_SCALAR) && k >= 1)) m = op->ssz[k];
  for (k = 0; k < 2; k++) if (op->dsz[k] > m) m = op->dsz[k];
  return m;
}

static void enumerate_single (unsigned profile)
{
  int i, mult, kind2, inplace, same;
  single_forms = malloc (sizeof (SingleForm) * ref_n_ops * 40);
  for (i = 0; i < ref_n_ops; i++) {
    const RefOp *op = &ref_ops[i];
    int binary = op->ssz[1] != 0 && op->kind == RK_ELEM;
    int isf = (op->flags & (RF_FLOAT_S | RF_FLOAT_D)) != 0;
    if (op->kind == RK_LOAD || op->kind == RK_STORE || op->kind == RK_LOADP) continue;
    if (op->kind != RK_ELEM && op->kind != RK_ACC) { if (!(profile & GP_SPECIAL)) continue; }
    else if (op->kind == RK_ACC) { if (!(profile & GP_ACC)) continue; }
    else if (isf ? !(profile & GP_FLOAT) : !(profile & GP_INT)) continue;
    for (mult = 1; mult <= 4; mult *= 2) {
      if (op_maxsz (op) * mult > 8) continue;
      if (mult > 1 && op->kind != RK_ELEM) continue;
      for (kind2 = 0; kind2 < 3; kind2++) {
        if (!binary && op->kind != RK_ACC && kind2 > 0) continue;
        if (op->kind == RK_ACC && (kind2 > 0)) continue;
        if (binary && (op->flags & RF_SCALAR) && kind2 == 0) continue;
        for (inplace = 0; inplace < 2; inplace++) {
          if (inplace && (op->kind != RK_ELEM || op->dsz[0] != op->ssz[0] || op->dsz[1])) continue;
          for (same = 0; same < 2; same++) {
            if (same && (!binary || kind2 != 0 || (op->flags & RF_SCALAR) || op->ssz[0] != op->ssz[1])) continue;
            single_forms[n_single].op = i; single_forms[n_single].mult = mult;
            single_forms[n_single].form = kind2 | (inplace << 2) | (same << 4);
            n_single++;
          }
        }
      }
    }
  }
}

static void build_single (ProgSpec *ps, const SingleForm *sf, VhRng *r)
{
  const RefOp *op = &ref_ops[sf->op];
  int kind2 = sf->form & 3, inplace = (sf->form >> 2) & 1, same = (sf->form >> 4) & 1;
  int k; PInsn *in;
  char nm[40];
  snprintf (nm, sizeof nm, "single_%s_x%d_f%d", op->name, sf->mult, sf->form);
  gen_init (ps, nm);
  in = gen_add_insn (ps, sf->op, sf->mult);
  for (k = 0; k < 2; k++) if (op->dsz[k]) in->dest[k] = gen_add_var (ps, (op->flags & RF_ACC) ? VK_ACC : VK_DEST, op->dsz[k] * sf->mult);
  for (k = 0; k < 4; k++) {
    if (!op->ssz[k]) continue;
    if (k == 0) {
      if (inplace) in->src[0] = in->dest[0];
      else { in->src[0] = gen_add_var (ps, VK_SRC, op->ssz[0] * sf->mult); if (op->kind != RK_ELEM && op->kind != RK_ACC) ps->vars[in->src[0]].special = op->kind; }
    } else if (op->kind == RK_LOADOFF || op->kind == RK_RESNEAR || op->kind == RK_RESLIN) {
      in->src[k] = gen_add_var (ps, VK_PARAM, 4);
    } else if (same) {
      in->src[k] = in->src[0];
    } else if (kind2 == 0) {
      in->src[k] = gen_add_var (ps, VK_SRC, op->ssz[k] * sf->mult);
    } else if (kind2 == 1) {
      uint64_t v = (op->flags & RF_SCALAR) ? gen_scalar_domain (r, op, k) : (op->flags & RF_FLOAT_S) ? gen_rand_float (r, op->ssz[k], 1) : gen_rand_value (r, op->ssz[k]);
      in->src[k] = gen_add_var (ps, VK_CONST, op->ssz[k]); ps->vars[in->src[k]].value = v;
    } else {
      in->src[k] = gen_add_var (ps, VK_PARAM, op->ssz[k]);
      if (op->flags & RF_FLOAT_S) ps->vars[in->src[k]].ptype = op->ssz[k] == 8 ? PT_DOUBLE : PT_FLOAT;
    }
  }
}

/* pairs: producer -> temp -> consumer */
typedef struct { int op1, op2; } PairForm;
static PairForm *pair_forms; static int n_pairs;
static void enumerate_pairs (unsigned profile)
{
  int i, j;
  pair_forms = malloc (sizeof (PairForm) * ref_n_ops * ref_n_ops);
  for (i = 0; i < ref_n_ops; i++) for (j = 0; j < ref_n_ops; j++) {
    const RefOp *a = &ref_ops[i], *b = &ref_ops[j];
    if (a->kind != RK_ELEM || (b->kind != RK_ELEM && b->kind != RK_ACC)) continue;
    if (!gen_op_allowed (a, profile) || !gen_op_allowed (b, profile)) continue;
    if (a->dsz[0] != b->ssz[0]) continue;
    pair_forms[n_pairs].op1 = i; pair_forms[n_pairs].op2 = j; n_pairs++;
  }
}

static void build_pair (ProgSpec *ps, const PairForm *pf, VhRng *r)
{
  const RefOp *a = &ref_ops[pf->op1], *b = &ref_ops[pf->op2];
  PInsn *in; int k, t, written[GEN_MAX_VARS] = { 0 };
  char nm[40];
  int variant = vh_randn (r, 4);
  snprintf (nm, sizeof nm, "pair_%s_%s", a->name, b->name);
  gen_init (ps, nm);
  in = gen_add_insn (ps, pf->op1, 1);
  t = gen_add_var (ps, VK_TEMP, a->dsz[0]); in->dest[0] = t;
  if (a->dsz[1]) in->dest[1] = gen_add_var (ps, VK_TEMP, a->dsz[1]);
  for (k = 0; k < 4; k++) if (a->ssz[k]) in->src[k] = gen_pick_src (ps, r, a, k, 1, 0, written, 1);
  written[t] = 1; if (a->dsz[1]) written[in->dest[1]] = 1;
  in = gen_add_insn (ps, pf->op2, 1);
  for (k = 0; k < 2; k++) if (b->dsz[k]) in->dest[k] = gen_add_var (ps, (b->flags & RF_ACC) ? VK_ACC : VK_DEST, b->dsz[k]);
  in->src[0] = t;
  for (k = 1; k < 4; k++) if (b->ssz[k]) {
    if (variant == 0 && b->ssz[k] == b->ssz[0] && !(b->flags & RF_SCALAR)) in->src[k] = t;         /* consumer uses the temp twice */
    else in->src[k] = gen_pick_src (ps, r, b, k, 1, 0, written, 1);
  }
  if (variant == 1 && ps->ninsns < 3) {
    /* keep the temp alive after the consumer: store it too */
    int d = gen_add_var (ps, VK_DEST, ps->vars[t].size);
    if (d >= 0) { in = gen_add_insn (ps, gen_op_index (gen_copy_name (ps->vars[t].size)), 1); in->dest[0] = d; in->src[0] = t; }
  }
  if (a->dsz[1]) {
    int d = gen_add_var (ps, VK_DEST, a->dsz[1]);
    if (d >= 0) { int t2 = ps->insns[0].dest[1]; in = gen_add_insn (ps, gen_op_index (gen_copy_name (ps->vars[t2].size)), 1); in->dest[0] = d; in->src[0] = t2; }
  }
}


#endif
