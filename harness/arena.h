/* arena.h - guard-page arena for arrays handed to Orc code.
 *
 * A slot is a memfd mapped twice: `rw` (harness side, always writable) and
 * `view` (what Orc code gets; PROT_READ for source slots, so that a write to
 * a source faults).  Layouts:
 *   LINEAR : [PROT_NONE page][ARENA_DATA_PAGES data pages][PROT_NONE page]
 *   STRIPED: ([PROT_NONE page][data page]) x ARENA_ROWS + [PROT_NONE page]   (stride 8192: each row
 *            ends / starts flush against an unmapped page)
 * The data area is pre-filled with a position-dependent canary pattern.
 */
#ifndef ARENA_H
#define ARENA_H
#define _GNU_SOURCE
#include <sys/mman.h>
#include <signal.h>
#include <setjmp.h>
#include <stdint.h>
#include <string.h>
#include <stdio.h>
#include <stdlib.h>
#include <unistd.h>
#include <sys/syscall.h>

#define ARENA_PAGE 4096
#define ARENA_DATA_PAGES 20
#define ARENA_DATA_BYTES (ARENA_DATA_PAGES * ARENA_PAGE)
#define ARENA_ROWS 8
#define ARENA_STRIPE_STRIDE (2 * ARENA_PAGE)

typedef struct {
  uint8_t *rw_base, *view_base;   /* start of whole mapping incl. guards */
  size_t map_bytes;
  int striped, readonly;
} ArenaSlot;

static inline uint8_t arena_pat (size_t off) { return (uint8_t) (0xA5 ^ (off * 37) ^ (off >> 8) * 11); }

static int arena_memfd (size_t bytes)
{
  int fd = (int) syscall (SYS_memfd_create, "vharena", 0);
  if (fd < 0) {
    char path[] = "/dev/shm/vharenaXXXXXX";
    fd = mkstemp (path);
    if (fd >= 0) unlink (path);
  }
  if (fd < 0) { perror ("arena memfd"); exit (2); }
  if (ftruncate (fd, bytes) < 0) { perror ("arena ftruncate"); exit (2); }
  return fd;
}

/* data offset (in the memfd) <-> address helpers */
static inline uint8_t *arena_data_rw (const ArenaSlot *s, int row) {
  return s->striped ? s->rw_base + ARENA_PAGE + (size_t) row * ARENA_STRIPE_STRIDE : s->rw_base + ARENA_PAGE;
}
static inline uint8_t *arena_data_view (const ArenaSlot *s, int row) {
  return s->striped ? s->view_base + ARENA_PAGE + (size_t) row * ARENA_STRIPE_STRIDE : s->view_base + ARENA_PAGE;
}
static inline size_t arena_data_len (const ArenaSlot *s) { return s->striped ? ARENA_PAGE : ARENA_DATA_BYTES; }

#ifndef MAP_FIXED_NOREPLACE
#define MAP_FIXED_NOREPLACE 0x100000
#endif
/* When >= 0, the next slot's view is placed so that this byte offset of its data area is a multiple of 4 GiB (arrays in it
 * then have rows on both sides of the boundary: row pointers whose upper 32 bits change).  Falls back to any address. */
static long arena_straddle_next = -1;
static int arena_straddled;

static void arena_slot_init (ArenaSlot *s, int striped, int readonly)
{
  size_t data = striped ? (size_t) ARENA_ROWS * ARENA_PAGE : ARENA_DATA_BYTES;
  size_t map = striped ? (size_t) ARENA_ROWS * ARENA_STRIPE_STRIDE + ARENA_PAGE : ARENA_DATA_BYTES + 2 * ARENA_PAGE;
  int fd = arena_memfd (data);
  int v, r;
  s->striped = striped; s->readonly = readonly; s->map_bytes = map;
  for (v = 0; v < 2; v++) {
    uint8_t *base;
    int prot = (v == 1 && readonly) ? PROT_READ : (PROT_READ | PROT_WRITE);
    if (v == 1 && !readonly) { s->view_base = s->rw_base; break; }
    base = MAP_FAILED;
    if (arena_straddle_next >= 0 && !striped && (v == 1 || !readonly)) {
      unsigned long k;
      for (k = 3; k < 4000 && base == MAP_FAILED; k += 7) {
        uint8_t *want = (uint8_t *) ((k << 32) - ARENA_PAGE - (unsigned long) arena_straddle_next);
        base = mmap (want, map, PROT_NONE, MAP_PRIVATE | MAP_ANONYMOUS | MAP_NORESERVE | MAP_FIXED_NOREPLACE, -1, 0);
        if (base != MAP_FAILED && base != want) { munmap (base, map); base = MAP_FAILED; }
      }
      if (base != MAP_FAILED) arena_straddled++;
    }
    if (base == MAP_FAILED) base = mmap (NULL, map, PROT_NONE, MAP_PRIVATE | MAP_ANONYMOUS | MAP_NORESERVE, -1, 0);
    if (base == MAP_FAILED) { perror ("arena mmap"); exit (2); }
    if (striped) {
      for (r = 0; r < ARENA_ROWS; r++) {
        if (mmap (base + ARENA_PAGE + (size_t) r * ARENA_STRIPE_STRIDE, ARENA_PAGE, prot, MAP_SHARED | MAP_FIXED, fd, (off_t) r * ARENA_PAGE) == MAP_FAILED) { perror ("arena mmap row"); exit (2); }
      }
    } else {
      if (mmap (base + ARENA_PAGE, ARENA_DATA_BYTES, prot, MAP_SHARED | MAP_FIXED, fd, 0) == MAP_FAILED) { perror ("arena mmap data"); exit (2); }
    }
    if (v == 0) s->rw_base = base; else s->view_base = base;
  }
  close (fd);
  {
    int rows = striped ? ARENA_ROWS : 1;
    for (r = 0; r < rows; r++) {
      uint8_t *d = arena_data_rw (s, r); size_t i, n = arena_data_len (s);
      for (i = 0; i < n; i++) d[i] = arena_pat (i + (size_t) r * 7);
    }
  }
}

/* restore pattern on [off, off+len) of row's data */
static inline void arena_repat (ArenaSlot *s, int row, size_t off, size_t len)
{
  uint8_t *d = arena_data_rw (s, row); size_t i;
  for (i = 0; i < len; i++) d[off + i] = arena_pat (off + i + (size_t) row * 7);
}

/* check that [off, off+len) still holds the pattern; returns offset of first mismatch or -1 */
static inline long arena_check (const ArenaSlot *s, int row, size_t off, size_t len)
{
  const uint8_t *d = arena_data_rw (s, row); size_t i;
  for (i = 0; i < len; i++) if (d[off + i] != arena_pat (off + i + (size_t) row * 7)) return (long) (off + i);
  return -1;
}

/* classify an address against a slot: 0 = not in slot, 1 = in data, 2 = in a guard page */
static inline int arena_classify (const ArenaSlot *s, const void *addr, int *via_view)
{
  const uint8_t *a = addr;
  int v;
  for (v = 0; v < 2; v++) {
    const uint8_t *base = v ? s->view_base : s->rw_base;
    if (a >= base && a < base + s->map_bytes) {
      size_t off = (size_t) (a - base);
      size_t pg = off / ARENA_PAGE;
      if (via_view) *via_view = v;
      if (s->striped) return (pg % 2 == 1) ? 1 : 2;
      return (pg >= 1 && pg <= ARENA_DATA_PAGES) ? 1 : 2;
    }
  }
  return 0;
}

/* ---------------- fault catching ---------------- */
static sigjmp_buf arena_jmp;
static volatile int arena_armed;
static void *volatile arena_fault_addr;
static volatile int arena_fault_sig, arena_fault_code;
static volatile unsigned long arena_fault_rip, arena_fault_err;

#include <ucontext.h>
static void arena_handler (int sig, siginfo_t *si, void *uc_)
{
  ucontext_t *uc = uc_;
  if (!arena_armed) {
    /* not ours: die with the default action so that the driver sees the signal */
    signal (sig, SIG_DFL);
    raise (sig);
    return;
  }
  arena_fault_addr = si->si_addr;
  arena_fault_sig = sig;
  arena_fault_code = si->si_code;
  arena_fault_rip = (unsigned long) uc->uc_mcontext.gregs[REG_RIP];
  arena_fault_err = (unsigned long) uc->uc_mcontext.gregs[REG_ERR];
  arena_armed = 0;
  siglongjmp (arena_jmp, 1);
}

static void arena_install_handlers (void)
{
  static uint8_t altstack[65536];
  stack_t ss; struct sigaction sa;
  ss.ss_sp = altstack; ss.ss_size = sizeof altstack; ss.ss_flags = 0;
  sigaltstack (&ss, NULL);
  memset (&sa, 0, sizeof sa);
  sa.sa_sigaction = arena_handler;
  sa.sa_flags = SA_SIGINFO | SA_ONSTACK | SA_NODEFER;
  sigemptyset (&sa.sa_mask);
  sigaction (SIGSEGV, &sa, NULL);
  sigaction (SIGBUS, &sa, NULL);
  sigaction (SIGILL, &sa, NULL);
  sigaction (SIGFPE, &sa, NULL);
  sigaction (SIGTRAP, &sa, NULL);
  sigaction (SIGVTALRM, &sa, NULL);   /* CPU-time watchdog of callers that arm one with setitimer(ITIMER_VIRTUAL) */
}

#endif
