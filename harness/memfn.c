/* memfn.c - C07: orc_memcpy / orc_memset behave like memcpy / memset for every
 * length and alignment, and touch no byte outside [0,len). */
#define _GNU_SOURCE
#include <orc/orc.h>
#include <orc/orcfunctions.h>
#include "vh.h"

int main (int argc, char **argv)
{
  static uint8_t src[8192], dst[8192], ref[8192];
  int len, sa, da, i, maxlen; long n = 0;
  static const int lens2[] = { 4095, 4096, 4097, 4098, 4099, 4100 };
  vh_parse_args (argc, argv);
  maxlen = vh_args.thorough ? 1100 : 300;
  orc_init ();
  for (i = 0; i < 8192; i++) src[i] = (uint8_t) (i * 131 + 7);
  for (len = 0; len <= maxlen + 6; len++) {
    int L = len <= maxlen ? len : lens2[len - maxlen - 1];
    for (sa = 0; sa < 32; sa++) for (da = 0; da < 32; da++) {
      memset (dst, 0xA5, 8192); memset (ref, 0xA5, 8192);
      memcpy (ref + 64 + da, src + 64 + sa, (size_t) L);
      orc_memcpy (dst + 64 + da, src + 64 + sa, L);
      if (memcmp (dst, ref, 8192)) { char w[200], s[80]; snprintf (w, sizeof w, "orc_memcpy(len=%d, dst align %d, src align %d) differs from memcpy or touched bytes outside [0,len)", L, da, sa); snprintf (s, sizeof s, "C07|orc_memcpy|len%s", L < 64 ? "<64" : ">=64"); vh_violation ("C07", s, w, "null"); goto next; }
      n++;
    }
    for (da = 0; da < 32; da++) for (sa = 0; sa < 3; sa++) {
      int val = sa == 0 ? 0 : sa == 1 ? 0xff : 0x3c;
      memset (dst, 0xA5, 8192); memset (ref, 0xA5, 8192);
      memset (ref + 64 + da, val, (size_t) L);
      orc_memset (dst + 64 + da, val, L);
      if (memcmp (dst, ref, 8192)) { char w[200], s[80]; snprintf (w, sizeof w, "orc_memset(len=%d, align %d, value %#x) differs from memset or touched bytes outside [0,len)", L, da, val); snprintf (s, sizeof s, "C07|orc_memset|len%s", L < 64 ? "<64" : ">=64"); vh_violation ("C07", s, w, "null"); goto next; }
      n++;
    }
next: ;
  }
  vh_count ("memfn.calls", (uint64_t) n);
  vh_done ();
  return 0;
}
