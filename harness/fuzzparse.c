/* fuzzparse.c - C14: coverage-guided fuzzing of the .orc parser (libFuzzer + ASan/UBSan, built with clang).
 * Oracle beyond the sanitizers (failures abort with a line "C14-ORACLE: ..."):
 *   - every error record carries a line number inside 1..#lines of the text
 *   - the returned programs can be compiled (target c or sse by input hash) and freed, the error array freed
 * Run on a single file (no -runs) it replays that input. */
#define _GNU_SOURCE
#include <orc/orc.h>
#include <orc/orcparse.h>
#include <stdint.h>
#include <stdio.h>
#include <stdlib.h>
#include <string.h>

static int inited;
static OrcTarget *tc, *tsse;

int LLVMFuzzerTestOneInput (const uint8_t *data, size_t size)
{
  char *text; OrcProgram **progs = NULL; OrcParseError **errs = NULL; int np = 0, ne = 0, i, nlines = 1; size_t k; uint32_t h = 2166136261u;
  if (!inited) { setenv ("ORC_DEBUG", "0", 1); orc_init (); tc = orc_target_get_by_name ("c"); tsse = orc_target_get_by_name ("sse"); inited = 1; }
  text = malloc (size + 1);
  memcpy (text, data, size); text[size] = 0;
  for (k = 0; k < size && text[k]; k++) { if (text[k] == '\n') nlines++; h = (h ^ (uint8_t) text[k]) * 16777619u; }
  orc_parse_code (text, &progs, &np, &errs, &ne);
  for (i = 0; i < ne; i++) {
    if (!errs[i]) { fprintf (stderr, "C14-ORACLE: error record %d of %d is NULL\n", i, ne); abort (); }
    if (errs[i]->line_number < 1 || errs[i]->line_number > nlines + 1) {
      fprintf (stderr, "C14-ORACLE: error line %d outside 1..%d (%s)\n", errs[i]->line_number, nlines, errs[i]->text ? errs[i]->text : ""); abort ();
    }
  }
  for (i = 0; i < np; i++) {
    if (!progs[i]) { fprintf (stderr, "C14-ORACLE: program %d of %d is NULL\n", i, np); abort (); }
    orc_program_compile_for_target (progs[i], ((h + (uint32_t) i) & 3) ? tc : tsse);
    orc_program_free (progs[i]);
  }
  free (progs);
  if (errs) orc_parse_error_freev (errs);
  if ((h & 3) == 0) {
    /* the older entry point that renders the error records into a log string */
    static char marker[] = ""; char *log = marker; OrcProgram **p2 = NULL; int n2 = orc_parse_full (text, &p2, &log);
    if (n2 != np) { fprintf (stderr, "C14-ORACLE: orc_parse_full returned %d programs, orc_parse_code %d\n", n2, np); abort (); }
    if (ne > 0 && (!log || log == marker)) { fprintf (stderr, "C14-ORACLE: orc_parse_full produced no log for %d errors\n", ne); abort (); }
    if (log && log != marker) free (log);
    for (i = 0; i < n2; i++) if (p2[i]) orc_program_free (p2[i]);
    free (p2);
  }
  free (text);
  return 0;
}
