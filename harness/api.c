/* api.c - API-level monitors, one mode per property:
 *   c05  compile total: any program x any registered target x flag sets; result classification contract
 *   c13  bytecode round trip
 *   c14  parser total: arbitrary text
 *   c15  text denotes the API-built program
 *   c16  object lifecycle sequences (run under ASan/LSan)
 *   c17  determinism / history independence of compilation
 *   c20  application-registered opcodes and rules
 */
#define _GNU_SOURCE
#include <orc/orc.h>
#include <orc/orcparse.h>
#include <orc/orcbytecode.h>
#include <orc/orcdebug.h>
#include <malloc.h>
#include "vh.h"
#include "ref.h"
#include "gen.h"
#include "progs.h"

static const unsigned ALLP = GP_INT | GP_FLOAT | GP_ACC | GP_2D | GP_HINTS | GP_EXPLICIT_LS | GP_SPECIAL;

/* ------------------------------------------------------------ helpers */
static OrcTarget *all_targets[16]; static int n_all_targets;
static const char *target_names[] = { "c", "c64x-c", "mmx", "sse", "avx", "neon", "mips", "altivec" };

static void find_targets (void)
{
  unsigned i;
  for (i = 0; i < sizeof target_names / sizeof target_names[0]; i++) {
    OrcTarget *t = orc_target_get_by_name (target_names[i]);
    if (t) all_targets[n_all_targets++] = t;
  }
}

static int is_x86 (OrcTarget *t) { return !strcmp (t->name, "sse") || !strcmp (t->name, "avx") || !strcmp (t->name, "mmx"); }

/* small emulation run of a compiled program on heap arrays; returns checksum */
static uint64_t tiny_emulate_ex (OrcProgram *p, OrcExecutor *ex, int n);
static uint64_t tiny_emulate (OrcProgram *p, int n)
{
  OrcExecutor *ex = orc_executor_new (p); uint64_t h = tiny_emulate_ex (p, ex, n);
  orc_executor_free (ex);
  return h;
}
/* emulation through a given program-attached executor (possibly created before the program was last compiled) */
static uint64_t tiny_emulate_ex (OrcProgram *p, OrcExecutor *ex, int n)
{
  static uint8_t bufs[ORC_N_VARIABLES][4096];
  uint64_t h = 1469598103934665603ULL; int i, j;
  orc_executor_set_n (ex, n);
  if (p->is_2d) orc_executor_set_m (ex, 1);
  for (i = 0; i < ORC_N_VARIABLES; i++) {
    OrcVariable *v = &p->vars[i];
    if (!v->size) continue;
    if (v->vartype == ORC_VAR_TYPE_SRC || v->vartype == ORC_VAR_TYPE_DEST) {
      for (j = 0; j < 4096; j++) bufs[i][j] = (uint8_t) (j * 7 + i * 13 + 1);
      orc_executor_set_array (ex, i, bufs[i] + 1024);
      if (p->is_2d) orc_executor_set_stride (ex, i, 512);
    } else if (v->vartype == ORC_VAR_TYPE_PARAM) {
      if (v->size == 8) orc_executor_set_param_int64 (ex, i, 3); else orc_executor_set_param (ex, i, 3);
    }
  }
  orc_executor_emulate (ex);
  for (i = 0; i < ORC_N_VARIABLES; i++) if (p->vars[i].size && p->vars[i].vartype == ORC_VAR_TYPE_DEST)
    for (j = 0; j < 4096; j++) h = (h ^ bufs[i][j]) * 1099511628211ULL;
  for (i = 0; i < 4; i++) h = (h ^ (uint32_t) ex->accumulators[i]) * 1099511628211ULL;
  return h;
}

static int program_uses_special_or_big (const ProgSpec *ps)
{
  int i;
  for (i = 0; i < ps->ninsns; i++) { int k = gen_op (&ps->insns[i])->kind; if (k == RK_LOADOFF || k == RK_RESNEAR || k == RK_RESLIN) return 1; }
  return 0;
}

/* ------------------------------------------------------------ c05 */
static void c05_viol (const char *sigtail, const char *what, const ProgSpec *ps, const char *target, unsigned flags, long caseidx)
{
  char sig[300]; VhBuf b = { 0 };
  snprintf (sig, sizeof sig, "C05|%s", sigtail);
  vh_buf_printf (&b, "{\"harness\":\"api\",\"mode\":\"c05\",\"seed\":%llu,\"case\":%ld,\"tier\":\"%s\",\"target\":\"%s\",\"flags\":%u,\"program\":",
      (unsigned long long) vh_args.seed, caseidx, vh_args.thorough ? "thorough" : "quick", target, flags);
  if (ps) gen_to_json (ps, &b); else vh_buf_printf (&b, "null");
  vh_buf_printf (&b, "}");
  vh_violation ("C05", sig, what, b.p); free (b.p);
}

static void c05_check_result (OrcProgram *p, OrcCompileResult res, OrcTarget *t, unsigned flags, const ProgSpec *ps, long caseidx, int valid_spec)
{
  char what[300];
  const char *cls = ORC_COMPILE_RESULT_IS_SUCCESSFUL (res) ? "ok" : ORC_COMPILE_RESULT_IS_FATAL (res) ? "fatal" : "nonfatal";
  vh_countf (1, "c05.%s.%s", t->name, cls);
  vh_set_addf ("results", "%s:%#x", t->name, res);
  if (!(res == ORC_COMPILE_RESULT_OK || res == ORC_COMPILE_RESULT_UNKNOWN_COMPILE || res == ORC_COMPILE_RESULT_MISSING_RULE ||
        res == ORC_COMPILE_RESULT_UNKNOWN_PARSE || res == ORC_COMPILE_RESULT_PARSE || res == ORC_COMPILE_RESULT_VARIABLE)) {
    snprintf (what, sizeof what, "compile for %s returned unclassified result code %#x", t->name, res);
    c05_viol ("result-code", what, ps, t->name, flags, caseidx);
  }
  if (p->n_insns > ORC_N_INSNS) {
    snprintf (what, sizeof what, "program holds %d instructions (table capacity %d)", p->n_insns, ORC_N_INSNS);
    c05_viol ("table-overflow|program-insns", what, ps, t->name, flags, caseidx);
  }
  if (p->orccode && p->orccode->n_insns > ORC_N_INSNS) {
    snprintf (what, sizeof what, "compiled code lists %d rewritten instructions (compiler table capacity %d): the compiler wrote past its instruction table", p->orccode->n_insns, ORC_N_INSNS);
    c05_viol ("table-overflow|compiler-insns", what, ps, t->name, flags, caseidx);
  }
  if (ORC_COMPILE_RESULT_IS_FATAL (res)) {
    if (p->orccode && p->orccode->code && p->orccode->exec && (void *) p->orccode->exec != (void *) orc_executor_emulate && p->orccode->code_size > 0) {
      snprintf (what, sizeof what, "fatal result %#x on %s but executable code is attached", res, t->name);
      c05_viol ("fatal-with-code", what, ps, t->name, flags, caseidx);
    }
  } else if (ORC_COMPILE_RESULT_IS_SUCCESSFUL (res)) {
    if (!p->orccode || !p->code_exec) {
      snprintf (what, sizeof what, "successful result on %s but no code", t->name);
      c05_viol ("ok-without-code", what, ps, t->name, flags, caseidx);
    }
    if (ps && p->orccode && !program_uses_special_or_big (ps)) { tiny_emulate (p, 5); vh_count (valid_spec ? "c05.emulated_after_ok" : "c05.emulated_mutated_after_ok", 1); }
  } else {
    /* neither fatal nor successful: must be runnable by emulation */
    if (!p->orccode) {
      snprintf (what, sizeof what, "result %#x on %s is not fatal but the program has no emulation data (orc_executor_run would abort)", res, t->name);
      c05_viol ("nonfatal-not-emulable", what, ps, t->name, flags, caseidx);
    } else if (p->code_exec != (void *) orc_executor_emulate && p->code_exec != p->backup_func) {
      snprintf (what, sizeof what, "result %#x on %s but code_exec is neither the emulator nor the backup function", res, t->name);
      c05_viol ("nonfatal-bad-exec", what, ps, t->name, flags, caseidx);
    } else if (ps && !program_uses_special_or_big (ps)) { tiny_emulate (p, 5); vh_count (valid_spec ? "c05.emulated_after_nonfatal" : "c05.emulated_mutated_after_nonfatal", 1); }
  }
}

static unsigned c05_flags (OrcTarget *t, VhRng *r, int k)
{
  unsigned d = orc_target_get_default_flags (t);
  switch (k) {
    case 0: return d;
    case 1: return 0;
    case 2: return 0xffffffffu & ~(ORC_TARGET_FAST_NAN | ORC_TARGET_FAST_DENORMAL);
    case 3: return d ^ (1u << vh_randn (r, 12));
    default: return (unsigned) vh_rand (r) & 0xfff;
  }
}

/* mutate a valid spec into a (probably) invalid one */
static void c05_mutate (ProgSpec *ps, VhRng *r)
{
  int q = (int) vh_randn (r, ps->ninsns), k;
  PInsn *in = &ps->insns[q];
  switch (vh_randn (r, 8)) {
    case 0: in->mult = in->mult == 1 ? 4 : 1; break;                                  /* size mismatch */
    case 1: if (ps->nvars > 1) in->src[0] = (int) vh_randn (r, ps->nvars); break;     /* arbitrary operand */
    case 2: if (ps->nvars > 1) in->dest[0] = (int) vh_randn (r, ps->nvars); break;    /* src/const/param as dest */
    case 3: in->op = (int) vh_randn (r, ref_n_ops); break;                            /* other opcode, same operands */
    case 4: for (k = 0; k < ps->nvars; k++) if (ps->vars[k].kind == VK_TEMP) { ps->vars[k].size = 1 << vh_randn (r, 4); break; } break;
    case 5: { int v = gen_add_var (ps, VK_TEMP, 1 << vh_randn (r, 4)); if (v >= 0) in->src[0] = v; break; }   /* uninitialised temp */
    case 6: for (k = 0; k < ps->nvars; k++) if (vh_chance (r, 1, 3)) ps->vars[k].size = 1 << vh_randn (r, 5); break;       /* sizes incl. 16 */
    default: in->mult = 2; in->op = gen_op_index ("addq"); break;                     /* x2 on 8-byte */
  }
}

static void c05_one (ProgSpec *ps, long caseidx, VhRng *r, int valid)
{
  int ti, k;
  for (ti = 0; ti < n_all_targets; ti++) {
    OrcTarget *t = all_targets[ti];
    int nf = valid ? (vh_args.thorough ? 5 : 3) : 2;
    for (k = 0; k < nf; k++) {
      unsigned flags = c05_flags (t, r, k);
      OrcProgram *p = gen_build (ps);
      OrcCompileResult res;
      res = orc_program_compile_full (p, t, flags);
      if (vh_args.verbose) { VhBuf tb = { 0 }; gen_print_orc (ps, &tb, NULL, NULL); fprintf (stderr, "c05 case %ld target %s flags %#x result %#x\n%s\n", caseidx, t->name, flags, res, tb.p); free (tb.p); }
      c05_check_result (p, res, t, flags, ps, caseidx, valid);
      orc_program_free (p);
      vh_count ("c05.compiles", 1);
    }
  }
  /* the same contract for a program object that already was compiled: one object compiled for 2..4 targets in a row, without a reset in
   * between (what the earlier compile left attached must not survive into a result that says "emulate") */
  {
    OrcProgram *p = gen_build (ps); int steps = 2 + (int) vh_randn (r, 3), s2;
    for (s2 = 0; s2 < steps; s2++) {
      OrcTarget *t = all_targets[vh_randn (r, n_all_targets)]; unsigned flags = orc_target_get_default_flags (t);
      OrcCompileResult res = orc_program_compile_full (p, t, flags);
      c05_check_result (p, res, t, flags, ps, caseidx, valid);
      vh_count ("c05.compiles", 1); vh_count ("c05.recompiles_of_one_object", s2 > 0);
      if (!ORC_COMPILE_RESULT_IS_SUCCESSFUL (res)) vh_count ("c05.recompile_not_successful_after_earlier_compile", s2 > 0);
    }
    orc_program_free (p);
  }
}

/* long programs through the different append entry points */
static void c05_long (long caseidx, VhRng *r)
{
  int len = 90 + (int) vh_randn (r, 30), i, ti;   /* 90..119: up to and past ORC_N_INSNS */
  int entry = (int) vh_randn (r, 4);
  for (ti = 0; ti < n_all_targets; ti++) {
    OrcProgram *p = orc_program_new ();
    OrcCompileResult res; char what[200];
    int d = orc_program_add_destination (p, 2, "d1"), s = orc_program_add_source (p, 2, "s1"), t1 = orc_program_add_temporary (p, 2, "t1");
    orc_program_set_name (p, "longprog");
    orc_program_append_ds (p, "copyw", t1, s);
    for (i = 0; i < len - 2; i++) {
      switch (entry) {
        case 0: orc_program_append (p, "addw", t1, t1, s); break;
        case 1: orc_program_append_2 (p, "addw", 0, t1, t1, s, 0); break;
        case 2: orc_program_append_str (p, "addw", "t1", "t1", "s1"); break;
        default: { const char *argv[3] = { "t1", "t1", "s1" }; orc_program_append_str_n (p, "addw", 0, 3, argv); break; }
      }
    }
    orc_program_append_ds (p, "copyw", d, t1);
    if (p->n_insns > ORC_N_INSNS) {
      snprintf (what, sizeof what, "%d append calls (entry point %d) left n_insns = %d > %d without an error: the instruction table was overrun", len, entry, p->n_insns, ORC_N_INSNS);
      c05_viol (entry == 0 ? "table-overflow|append" : entry == 1 ? "table-overflow|append_2" : entry == 2 ? "table-overflow|append_str" : "table-overflow|append_str_n", what, NULL, all_targets[ti]->name, 0, caseidx);
      /* the object is corrupt: do not compile or free it */
      vh_count ("c05.long_overrun", 1);
      continue;
    }
    res = orc_program_compile_full (p, all_targets[ti], orc_target_get_default_flags (all_targets[ti]));
    c05_check_result (p, res, all_targets[ti], 0, NULL, caseidx, 0);
    vh_countf (1, "c05.long.len%s", len > 100 ? ">100" : "<=100");
    orc_program_free (p);
  }
}

/* too many variables of each class */
static void c05_vars (long caseidx)
{
  int cls, i;
  for (cls = 0; cls < 6; cls++) {
    OrcProgram *p = orc_program_new ();
    int max = cls == 0 ? ORC_MAX_DEST_VARS : cls == 1 ? ORC_MAX_SRC_VARS : cls == 2 ? ORC_MAX_ACCUM_VARS : cls == 3 ? ORC_MAX_CONST_VARS : cls == 4 ? ORC_MAX_PARAM_VARS : ORC_MAX_TEMP_VARS;
    OrcCompileResult res;
    orc_program_set_name (p, "manyvars");
    orc_program_add_destination (p, 1, "dd"); orc_program_add_source (p, 1, "ss");
    for (i = 0; i < max + 3; i++) {
      char nm[16]; snprintf (nm, sizeof nm, "v%d", i);
      switch (cls) {
        case 0: orc_program_add_destination (p, 1, nm); break;
        case 1: orc_program_add_source (p, 1, nm); break;
        case 2: orc_program_add_accumulator (p, 2, nm); break;
        case 3: orc_program_add_constant (p, 1, i, nm); break;
        case 4: orc_program_add_parameter (p, 1, nm); break;
        default: orc_program_add_temporary (p, 1, nm); break;
      }
    }
    orc_program_append_ds (p, "copyb", ORC_VAR_D1, ORC_VAR_S1);
    for (i = 0; i < n_all_targets; i++) {
      res = orc_program_compile_full (p, all_targets[i], orc_target_get_default_flags (all_targets[i]));
      c05_check_result (p, res, all_targets[i], 0, NULL, caseidx, 0);
      if (!ORC_COMPILE_RESULT_IS_FATAL (res) && !ORC_COMPILE_RESULT_IS_SUCCESSFUL (res) && 0) { }
    }
    vh_count ("c05.manyvars", 1);
    orc_program_free (p);
  }
}

/* every opcode with an x2/x4 prefix and operands of exactly the multiplied sizes, also where those exceed the 8 bytes a variable may have:
 * the compiler has to refuse what it cannot handle, not assert */
static void c05_prefix (long caseidx, int opi, int mult)
{
  const RefOp *op = &ref_ops[opi]; int ti, k;
  for (ti = 0; ti < n_all_targets; ti++) {
    OrcProgram *p = orc_program_new (); int d[2] = { 0, 0 }, s[4] = { 0, 0, 0, 0 }; OrcCompileResult res;
    orc_program_set_name (p, "prefixprog");
    for (k = 0; k < 2; k++) if (op->dsz[k]) d[k] = (op->flags & RF_ACC) ? orc_program_add_accumulator (p, op->dsz[k] * mult, k ? "a2" : "a1") : orc_program_add_destination (p, op->dsz[k] * mult, k ? "d2" : "d1");
    for (k = 0; k < 4; k++) if (op->ssz[k]) {
      char nm[8]; snprintf (nm, sizeof nm, "s%d", k + 1);
      if ((op->flags & RF_SCALAR) && k >= 1) s[k] = orc_program_add_constant (p, op->ssz[k], 1, nm);
      else if (op->kind == RK_LOADP) s[k] = orc_program_add_parameter (p, op->ssz[k], nm);
      else s[k] = orc_program_add_source (p, op->ssz[k] * mult, nm);
    }
    orc_program_append_2 (p, op->name, mult == 2 ? ORC_INSTRUCTION_FLAG_X2 : ORC_INSTRUCTION_FLAG_X4, d[0], op->dsz[1] ? d[1] : s[0], op->dsz[1] ? s[0] : s[1], op->dsz[1] ? s[1] : s[2]);
    res = orc_program_compile_full (p, all_targets[ti], orc_target_get_default_flags (all_targets[ti]));
    c05_check_result (p, res, all_targets[ti], 0, NULL, caseidx, 0);
    vh_count ("c05.prefix_forms", 1); vh_count ("c05.compiles", 1);
    orc_program_free (p);
  }
}

static void mode_c05 (void)
{
  long c, total, N1 = n_single, Nr = vh_args.thorough ? 120000 : 12000, Nm = vh_args.thorough ? 120000 : 12000, Nl = vh_args.thorough ? 1200 : 200, Np = 2L * ref_n_ops;
  total = N1 + Nr + Nm + Nl + 1 + Np;
  for (c = 0; c < total; c++) {
    ProgSpec ps; VhRng r; char desc[100];
    if (!vh_my_case (c)) continue;
    vh_rng_init (&r, vh_args.seed, (uint64_t) c);
    if (c < N1) { build_single (&ps, &single_forms[c], &r); snprintf (desc, sizeof desc, "c05 %s", ps.name); vh_progress (c, desc); c05_one (&ps, c, &r, 1); }
    else if (c < N1 + Nr) {
      char nm[32]; int ok; snprintf (nm, sizeof nm, "rand_%ld", c); gen_init (&ps, nm);
      ok = gen_random (&ps, &r, ALLP, vh_chance (&r, 1, 6) ? 40 + (int) vh_randn (&r, 60) : 2 + (int) vh_randn (&r, 14));
      snprintf (desc, sizeof desc, "c05 random %s (%d insns)", nm, ps.ninsns); vh_progress (c, desc);
      if (ok) c05_one (&ps, c, &r, 1); else vh_count ("c05.invalid_spec", 1);
    } else if (c < N1 + Nr + Nm) {
      char nm[32]; int ok; snprintf (nm, sizeof nm, "mut_%ld", c); gen_init (&ps, nm);
      ok = gen_random (&ps, &r, ALLP, 1 + (int) vh_randn (&r, 8));
      if (ok) { c05_mutate (&ps, &r); if (vh_chance (&r, 1, 3)) c05_mutate (&ps, &r); }
      snprintf (desc, sizeof desc, "c05 mutated %s", nm); vh_progress (c, desc);
      if (ok) { c05_one (&ps, c, &r, 0); vh_count ("c05.mutated", 1); }
    } else if (c < N1 + Nr + Nm + Nl) { snprintf (desc, sizeof desc, "c05 long"); vh_progress (c, desc); c05_long (c, &r); }
    else if (c == N1 + Nr + Nm + Nl) { vh_progress (c, "c05 manyvars"); c05_vars (c); }
    else { long k = c - (N1 + Nr + Nm + Nl + 1); snprintf (desc, sizeof desc, "c05 prefix x%d %s", (int) (k & 1) ? 4 : 2, ref_ops[k >> 1].name); vh_progress (c, desc); c05_prefix (c, (int) (k >> 1), (k & 1) ? 4 : 2); }
    if ((c & 63) == 0) vh_flush ();
  }
}

/* ------------------------------------------------------------ c13 */
static int compare_programs (OrcProgram *a, OrcProgram *b, char *what, size_t cap, int check_names)
{
  int i, k;
#define CMPF(f) if (a->f != b->f) { snprintf (what, cap, "%s differs: %d vs %d", #f, (int) a->f, (int) b->f); return 1; }
  CMPF (n_insns) CMPF (n_src_vars) CMPF (n_dest_vars) CMPF (n_param_vars) CMPF (n_const_vars) CMPF (n_temp_vars) CMPF (n_accum_vars)
  CMPF (is_2d) CMPF (constant_n) CMPF (n_multiple) CMPF (n_minimum) CMPF (n_maximum) CMPF (constant_m)
  for (i = 0; i < ORC_N_VARIABLES; i++) {
    OrcVariable *x = &a->vars[i], *y = &b->vars[i];
    if (x->size != y->size) { snprintf (what, cap, "variable %d size %d vs %d", i, x->size, y->size); return 1; }
    if (!x->size) continue;
    if (x->vartype != y->vartype) { snprintf (what, cap, "variable %d (%s) class %d vs %d", i, x->name ? x->name : "?", x->vartype, y->vartype); return 1; }
    if ((x->vartype == ORC_VAR_TYPE_SRC || x->vartype == ORC_VAR_TYPE_DEST) && x->alignment != y->alignment) { snprintf (what, cap, "variable %d alignment %d vs %d", i, x->alignment, y->alignment); return 1; }
    if (x->vartype == ORC_VAR_TYPE_CONST && ((x->value.i ^ y->value.i) & (orc_int64) ref_mask (x->size)) != 0) { snprintf (what, cap, "constant %d value %#llx vs %#llx", i, (unsigned long long) x->value.i, (unsigned long long) y->value.i); return 1; }
    if (x->vartype == ORC_VAR_TYPE_PARAM && x->param_type != y->param_type) { snprintf (what, cap, "parameter %d (%s) class %d vs %d", i, x->name ? x->name : "?", x->param_type, y->param_type); return 1; }
    if (check_names && x->name && y->name && strcmp (x->name, y->name)) { snprintf (what, cap, "variable %d name %s vs %s", i, x->name, y->name); return 1; }
  }
  for (i = 0; i < a->n_insns && i < ORC_N_INSNS; i++) {
    OrcInstruction *x = &a->insns[i], *y = &b->insns[i];
    if (x->opcode != y->opcode) { snprintf (what, cap, "instruction %d opcode %s vs %s", i, x->opcode ? x->opcode->name : "?", y->opcode ? y->opcode->name : "?"); return 1; }
    if ((x->flags & 3) != (y->flags & 3)) { snprintf (what, cap, "instruction %d (%s) x2/x4 flags %u vs %u", i, x->opcode->name, x->flags & 3, y->flags & 3); return 1; }
    for (k = 0; k < 2; k++) if (x->opcode->dest_size[k] && x->dest_args[k] != y->dest_args[k]) { snprintf (what, cap, "instruction %d (%s) dest[%d] %d vs %d", i, x->opcode->name, k, x->dest_args[k], y->dest_args[k]); return 1; }
    for (k = 0; k < 4; k++) if (x->opcode->src_size[k] && x->src_args[k] != y->src_args[k]) { snprintf (what, cap, "instruction %d (%s) src[%d] %d vs %d", i, x->opcode->name, k, x->src_args[k], y->src_args[k]); return 1; }
  }
  return 0;
}

static void spec_viol (const char *prop, const char *mode, const char *sigtail, const char *what, const ProgSpec *ps, long caseidx, const char *extra_json)
{
  char sig[300]; VhBuf b = { 0 };
  snprintf (sig, sizeof sig, "%s|%s", prop, sigtail);
  vh_buf_printf (&b, "{\"harness\":\"api\",\"mode\":\"%s\",\"seed\":%llu,\"case\":%ld,\"tier\":\"%s\",\"program\":", mode, (unsigned long long) vh_args.seed, caseidx, vh_args.thorough ? "thorough" : "quick");
  if (ps) gen_to_json (ps, &b); else vh_buf_printf (&b, "null");
  if (extra_json) vh_buf_printf (&b, ",\"extra\":%s", extra_json);
  vh_buf_printf (&b, "}");
  vh_violation (prop, sig, what, b.p); free (b.p);
}

static void c13_one (ProgSpec *ps, long caseidx)
{
  OrcProgram *a = gen_build (ps), *b2; OrcBytecode *bc, *bc2; char what[300];
  OrcTarget *t = orc_target_get_by_name ("sse");
  bc = orc_bytecode_from_program (a);
  vh_count ("c13.encoded", 1);
  vh_count ("c13.bytes", (uint64_t) bc->length);
  b2 = orc_program_new_from_static_bytecode (bc->bytecode);
  if (!b2) { spec_viol ("C13", "c13", "decode-null", "orc_program_new_from_static_bytecode returned NULL", ps, caseidx, NULL); orc_bytecode_free (bc); orc_program_free (a); return; }
  if (compare_programs (a, b2, what, sizeof what, 0)) {
    char sigt[120], *sp;
    snprintf (sigt, sizeof sigt, "field|%s", what);
    for (sp = sigt; *sp; sp++) if (*sp >= '0' && *sp <= '9') *sp = 'N';
    { char *col = strstr (sigt, " N"); if (col) *col = 0; }
    spec_viol ("C13", "c13", sigt, what, ps, caseidx, NULL);
  } else {
    bc2 = orc_bytecode_from_program (b2);
    if (bc2->length != bc->length || memcmp (bc2->bytecode, bc->bytecode, bc->length)) {
      snprintf (what, sizeof what, "re-encoding the reconstructed program gives %d bytes, first encoding %d bytes, or different content", bc2->length, bc->length);
      spec_viol ("C13", "c13", "reencode-differs", what, ps, caseidx, NULL);
    }
    orc_bytecode_free (bc2);
    if (!program_uses_special_or_big (ps)) {
      OrcCompileResult r1 = orc_program_compile_for_target (a, t), r2 = orc_program_compile_for_target (b2, t);
      if (!ORC_COMPILE_RESULT_IS_FATAL (r1) && !ORC_COMPILE_RESULT_IS_FATAL (r2) && a->orccode && b2->orccode) {
        uint64_t h1 = tiny_emulate (a, 37), h2 = tiny_emulate (b2, 37);
        vh_count ("c13.emulated", 1);
        if (h1 != h2) spec_viol ("C13", "c13", "behaviour-differs", "emulating the reconstructed program gives different destination bytes/accumulators", ps, caseidx, NULL);
      } else if (ORC_COMPILE_RESULT_IS_FATAL (r1) != ORC_COMPILE_RESULT_IS_FATAL (r2)) spec_viol ("C13", "c13", "compile-result-differs", "original and reconstructed program compile differently", ps, caseidx, NULL);
    }
  }
  orc_bytecode_free (bc);
  orc_program_free (a); orc_program_free (b2);
}

static void c13_boundary (long caseidx)
{
  /* boundary encodings: hints/constant n/alignment 254, 255, 256, 65534; long names */
  static const int vals[] = { 1, 254, 255, 256, 65534 };
  unsigned i, w;
  for (w = 0; w < 6; w++) for (i = 0; i < sizeof vals / sizeof vals[0]; i++) {
    ProgSpec ps; PInsn *in; int d, s; char nm[64];
    snprintf (nm, sizeof nm, "bnd_%u_%d", w, vals[i]);
    gen_init (&ps, nm);
    d = gen_add_var (&ps, VK_DEST, 2); s = gen_add_var (&ps, VK_SRC, 2);
    in = gen_add_insn (&ps, gen_op_index ("copyw"), 1); in->dest[0] = d; in->src[0] = s;
    switch (w) {
      case 0: ps.const_n = vals[i]; break;
      case 1: ps.n_mult = vals[i]; break;
      case 2: ps.n_min = vals[i]; break;
      case 3: ps.n_max = vals[i]; break;
      case 4: ps.is2d = 1; ps.const_m = vals[i]; break;
      default: ps.vars[s].align = vals[i] == 65534 ? 4096 : (vals[i] & ~1) ? (vals[i] & ~1) : 2; break;
    }
    vh_progress (caseidx, nm);
    c13_one (&ps, caseidx);
    vh_count ("c13.boundary", 1);
  }
  {
    /* all variable slots used, 100 instructions */
    ProgSpec ps; int i2, t[16], s[8], d[4]; PInsn *in;
    gen_init (&ps, "full");
    for (i2 = 0; i2 < 4; i2++) d[i2] = gen_add_var (&ps, VK_DEST, 2);
    for (i2 = 0; i2 < 8; i2++) s[i2] = gen_add_var (&ps, VK_SRC, 2);
    for (i2 = 0; i2 < 4; i2++) gen_add_var (&ps, VK_ACC, 2);
    for (i2 = 0; i2 < 8; i2++) { int c = gen_add_var (&ps, VK_CONST, 2); ps.vars[c].value = 0x1234 + i2; }
    for (i2 = 0; i2 < 8; i2++) gen_add_var (&ps, VK_PARAM, 2);
    for (i2 = 0; i2 < 16; i2++) t[i2] = gen_add_var (&ps, VK_TEMP, 2);
    for (i2 = 0; i2 < 96; i2++) { in = gen_add_insn (&ps, gen_op_index ("addw"), 1); in->dest[0] = t[i2 % 16]; in->src[0] = s[i2 % 8]; in->src[1] = i2 < 16 ? s[(i2 + 1) % 8] : t[(i2 + 5) % 16]; }
    for (i2 = 0; i2 < 4; i2++) { in = gen_add_insn (&ps, gen_op_index ("copyw"), 1); in->dest[0] = d[i2]; in->src[0] = t[i2]; }
    vh_progress (caseidx, "full");
    if (gen_valid (&ps)) { c13_one (&ps, caseidx); vh_count ("c13.full100", 1); }
  }
}

static void mode_c13 (void)
{
  long c, N1 = n_single, Np = vh_args.thorough ? n_pairs : 8000, Nr = vh_args.thorough ? 500000 : 50000, total = N1 + Np + Nr + 1;
  if (Np > n_pairs) Np = n_pairs;
  for (c = 0; c < total; c++) {
    ProgSpec ps; VhRng r; char desc[100]; int ok = 1;
    if (!vh_my_case (c)) continue;
    vh_rng_init (&r, vh_args.seed, (uint64_t) c);
    if (c < N1) build_single (&ps, &single_forms[c], &r);
    else if (c < N1 + Np) build_pair (&ps, &pair_forms[(long) ((vh_args.seed * 2654435761ULL + (uint64_t) (c - N1) * 7919) % (uint64_t) n_pairs)], &r);
    else if (c < N1 + Np + Nr) { char nm[32]; snprintf (nm, sizeof nm, "rand_%ld", c); gen_init (&ps, nm); ok = gen_random (&ps, &r, ALLP, vh_chance (&r, 1, 10) ? 60 + (int) vh_randn (&r, 38) : 1 + (int) vh_randn (&r, 16)); }
    else { c13_boundary (c); continue; }
    snprintf (desc, sizeof desc, "c13 %s", ps.name); vh_progress (c, desc);
    if (!ok || !gen_valid (&ps)) { vh_count ("c13.invalid_spec", 1); continue; }
    /* float constants / params of all classes */
    if (vh_chance (&r, 1, 4)) { int i; for (i = 0; i < ps.nvars; i++) if (ps.vars[i].kind == VK_PARAM && ps.vars[i].size == 8 && vh_chance (&r, 1, 2)) ps.vars[i].ptype = PT_DOUBLE; else if (ps.vars[i].kind == VK_PARAM && ps.vars[i].size == 4 && vh_chance (&r, 1, 2)) ps.vars[i].ptype = PT_FLOAT; }
    /* declared alignments of any size, also smaller than the element (the format stores what was declared) */
    if (vh_chance (&r, 1, 3)) { static const int als[] = { 1, 2, 4, 8, 16, 32, 64 }; int i; for (i = 0; i < ps.nvars; i++) if ((ps.vars[i].kind == VK_SRC || ps.vars[i].kind == VK_DEST) && vh_chance (&r, 1, 2)) ps.vars[i].align = als[vh_randn (&r, 7)]; vh_count ("c13.arbitrary_alignments", 1); }
    c13_one (&ps, c);
    vh_set_addf ("c13.param_types", "%d", 0);
    if ((c & 255) == 0) vh_flush ();
  }
}

/* ------------------------------------------------------------ c14 / c15 */
static int count_lines (const char *s)
{
  int n = 1; for (; *s; s++) if (*s == '\n') n++; return n;
}

static const char *c14_words[] = { ".function", ".source", ".dest", ".temp", ".const", ".param", ".accumulator", ".floatparam", ".longparam", ".doubleparam",
  ".flags", ".n", ".m", ".init", ".backup", "2d", "mult", "min", "max", "align", "x2", "x4", "addw", "mullw", "convsbw", "copyb", "loadpb", "splitlw", "accw",
  "ldresnearl", "d1", "s1", "t1", "p1", "c1", "a1", "1", "2", "4", "8", "0x10", "-1", "1x", "0x", "--1", "1e999", "3.5", "99999999999999999999", "1L", ",", "#", "", "\t" };
#define NWORDS ((int) (sizeof c14_words / sizeof c14_words[0]))

static void c14_mutate_text (VhBuf *b, VhRng *r)
{
  /* token level mutations on a valid text */
  int nm = 1 + (int) vh_randn (r, 3), m;
  for (m = 0; m < nm && b->len > 4; m++) {
    size_t pos = vh_randn (r, (uint32_t) b->len);
    switch (vh_randn (r, 9)) {
      case 0: { /* delete a span */ size_t len = 1 + vh_randn (r, 12); if (pos + len > b->len) len = b->len - pos; memmove (b->p + pos, b->p + pos + len, b->len - pos - len + 1); b->len -= len; break; }
      case 1: { /* insert a word */ const char *w = c14_words[vh_randn (r, NWORDS)]; size_t l = strlen (w); vh_buf_reserve (b, l + 2); memmove (b->p + pos + l + 1, b->p + pos, b->len - pos + 1); memcpy (b->p + pos, w, l); b->p[pos + l] = ' '; b->len += l + 1; break; }
      case 2: { /* many extra tokens on a line */ int k, cnt = 1 + (int) vh_randn (r, 40); for (k = 0; k < cnt; k++) { vh_buf_reserve (b, 8); memmove (b->p + pos + 3, b->p + pos, b->len - pos + 1); memcpy (b->p + pos, " t1", 3); b->len += 3; } break; }
      case 3: b->p[pos] = (char) (1 + vh_randn (r, 254)); break;
      case 4: b->p[pos] = '\r'; break;
      case 5: b->p[pos] = '\n'; break;
      case 6: { /* duplicate a line */ size_t s = pos, e = pos; while (s > 0 && b->p[s - 1] != '\n') s--; while (e < b->len && b->p[e] != '\n') e++; { size_t l = e - s + 1; vh_buf_reserve (b, l + 1); memmove (b->p + e + 1 + l - 1 + (e < b->len ? 0 : 0), b->p + e, b->len - e + 1); memcpy (b->p + e, "\n", 1); memcpy (b->p + e + 1, b->p + s, l - 1); b->len += l; } break; }
      case 7: if (b->len > 0 && b->p[b->len - 1] == '\n') { b->p[--b->len] = 0; } break;   /* missing final newline */
      default: { /* truncate */ b->len = pos; b->p[pos] = 0; break; }
    }
  }
}

static void c14_run (const char *text, size_t len, long caseidx, const char *kind, int expect_line)
{
  OrcProgram **progs = NULL; int np = 0, ne = 0, i, nlines; OrcParseError **errs = NULL;
  char *copy = malloc (len + 1); char what[300];
  OrcTarget *sse = orc_target_get_by_name ("sse"), *ct = orc_target_get_by_name ("c");
  memcpy (copy, text, len); copy[len] = 0;
  nlines = count_lines (copy);
  orc_parse_code (copy, &progs, &np, &errs, &ne);
  vh_count ("c14.parsed", 1); vh_countf (1, "c14.kind.%s", kind);
  vh_count ("c14.programs", (uint64_t) np); vh_count ("c14.errors", (uint64_t) ne);
  for (i = 0; i < ne; i++) {
    if (!errs[i] || errs[i]->line_number < 1 || errs[i]->line_number > nlines + 1) {
      snprintf (what, sizeof what, "error record %d has line number %d, text has %d lines", i, errs[i] ? errs[i]->line_number : -1, nlines);
      spec_viol ("C14", "c14", "error-line-out-of-range", what, NULL, caseidx, NULL);
      break;
    }
  }
  if (expect_line > 0) {
    int hit = 0;
    for (i = 0; i < ne; i++) if (errs[i]->line_number == expect_line) hit = 1;
    if (!hit) {
      VhBuf eb = { 0 };
      snprintf (what, sizeof what, "injected fault (%s) at line %d produced no error record for that line (%d errors, %d programs)", kind, expect_line, ne, np);
      vh_buf_jstr (&eb, copy);
      { char sg[80]; snprintf (sg, sizeof sg, "fault-not-reported|%s", kind); spec_viol ("C14", "c14", sg, what, NULL, caseidx, eb.p); }
      free (eb.p);
    } else vh_count ("c14.injected_fault_reported", 1);
  }
  for (i = 0; i < np; i++) {
    OrcCompileResult r1;
    if (!progs[i]) continue;
    if (progs[i]->n_insns > ORC_N_INSNS) { spec_viol ("C14", "c14", "table-overflow|parsed-program-insns", "parser returned a program with more instructions than the table holds", NULL, caseidx, NULL); continue; }
    r1 = orc_program_compile_for_target (progs[i], i & 1 ? ct : sse);
    vh_countf (1, "c14.compile.%s", ORC_COMPILE_RESULT_IS_SUCCESSFUL (r1) ? "ok" : ORC_COMPILE_RESULT_IS_FATAL (r1) ? "fatal" : "nonfatal");
    orc_program_free (progs[i]);
  }
  free (progs);
  if (errs) orc_parse_error_freev (errs);
  /* the older entry point that renders the error records into a log string */
  if ((caseidx & 3) == 0) {
    static char marker[] = ""; char *log = marker; OrcProgram **p2 = NULL; int n2, nl2 = 0; const char *q;
    n2 = orc_parse_full (copy, &p2, &log);
    vh_count ("c14.parse_full", 1);
    if (n2 != np) { snprintf (what, sizeof what, "orc_parse_full returned %d programs, orc_parse_code %d", n2, np); spec_viol ("C14", "c14", "parse-full-differs", what, NULL, caseidx, NULL); }
    if (ne > 0) {
      if (!log || log == marker) spec_viol ("C14", "c14", "parse-full-no-log", "orc_parse_full produced no log although orc_parse_code reports errors", NULL, caseidx, NULL);
      else { for (q = log; *q; q++) if (*q == '\n') nl2++; if (nl2 < ne) { snprintf (what, sizeof what, "orc_parse_full log has %d lines for %d error records", nl2, ne); spec_viol ("C14", "c14", "parse-full-log-short", what, NULL, caseidx, NULL); } }
    }
    if (log && log != marker) free (log);
    for (i = 0; i < n2; i++) if (p2[i]) orc_program_free (p2[i]);
    free (p2);
  }
  free (copy);
}

static void mode_c14 (void)
{
  long c, total = vh_args.thorough ? 3000000 : 300000;
  for (c = 0; c < total; c++) {
    VhRng r; VhBuf b = { 0 }; ProgSpec ps; char desc[60]; int kind;
    if (!vh_my_case (c)) continue;
    vh_rng_init (&r, vh_args.seed, (uint64_t) c);
    kind = (int) vh_randn (&r, 100);
    snprintf (desc, sizeof desc, "c14 case kind %d", kind); vh_progress (c, desc);
    if (kind < 8) {
      /* directed faults with a known line */
      int which = (int) vh_randn (&r, 10), nl;
      GenPrintStyle st = { 0 }; char nm[32]; snprintf (nm, sizeof nm, "f%ld", c); gen_init (&ps, nm);
      if (!gen_random (&ps, &r, GP_INT | GP_ACC, 2 + (int) vh_randn (&r, 5))) continue;
      st.spaces_after_comma = 1;
      switch (which) {
        case 0: vh_buf_printf (&b, ".source 2 s1\n"); gen_print_orc (&ps, &b, &st, NULL); c14_run (b.p, b.len, c, "directive-before-function", 1); break;
        case 1: vh_buf_printf (&b, "addw d1, s1, s2\n"); gen_print_orc (&ps, &b, &st, NULL); c14_run (b.p, b.len, c, "opcode-before-function", 1); break;
        case 2: gen_print_orc (&ps, &b, &st, NULL); nl = count_lines (b.p); vh_buf_printf (&b, "frobnicate d1, s1\n"); c14_run (b.p, b.len, c, "unknown-opcode", nl); break;
        case 3: gen_print_orc (&ps, &b, &st, NULL); nl = count_lines (b.p); { int k; vh_buf_printf (&b, "addw d1"); for (k = 0; k < 5 + (int) vh_randn (&r, 60); k++) vh_buf_printf (&b, ", s1"); vh_buf_printf (&b, "\n"); } c14_run (b.p, b.len, c, "too-many-operands", nl); break;
        case 4: { int k; vh_buf_printf (&b, ".function big\n.dest 2 d1\n.source 2 s1\n.temp 2 t1\ncopyw t1, s1\n"); for (k = 0; k < 101 + (int) vh_randn (&r, 40); k++) vh_buf_printf (&b, "addw t1, t1, s1\n"); vh_buf_printf (&b, "copyw d1, t1\n"); c14_run (b.p, b.len, c, "too-many-instructions", -1); break; }
        case 5: { int k; vh_buf_printf (&b, ".function vars\n.dest 1 d1\n"); for (k = 0; k < 9 + (int) vh_randn (&r, 12); k++) vh_buf_printf (&b, ".source 1 s%d\n", k + 1); for (k = 0; k < 17 + (int) vh_randn (&r, 10); k++) vh_buf_printf (&b, ".temp 1 t%d\n", k + 1); vh_buf_printf (&b, "copyb d1, s1\n"); c14_run (b.p, b.len, c, "too-many-variables", -1); break; }
        case 6: gen_print_orc (&ps, &b, &st, NULL); nl = count_lines (b.p); vh_buf_printf (&b, "addw d1, s1, %s\n", vh_chance (&r, 1, 2) ? "1x" : "--1"); c14_run (b.p, b.len, c, "bad-number-operand", -1); break;
        case 8: case 9: {
          /* a directive line with exactly K tokens (1..20; the tokeniser holds 16), ending in a keyword that wants a value */
          static const char *dirs[] = { ".source", ".dest", ".accumulator", ".temp", ".const", ".param", ".floatparam", ".longparam", ".doubleparam", ".n", ".m", ".flags", ".init", ".function" };
          static const char *fill[] = { "1", "2", "4", "8", "x", "s1", "align", "mult", "min", "max", "2d", "16", "0x10" };
          static const char *last[] = { "align", "mult", "min", "max", "2d", "8", "name" };
          int K = 1 + (int) vh_randn (&r, 20), k;
          gen_print_orc (&ps, &b, &st, NULL);
          vh_buf_printf (&b, "%s", dirs[vh_randn (&r, 14)]);
          for (k = 1; k < K - 1; k++) vh_buf_printf (&b, " %s", k == 1 && vh_chance (&r, 2, 3) ? "2" : k == 2 && vh_chance (&r, 2, 3) ? "v9" : fill[vh_randn (&r, 13)]);
          if (K > 1) vh_buf_printf (&b, " %s", last[vh_randn (&r, 7)]);
          vh_buf_printf (&b, "\n");
          c14_run (b.p, b.len, c, "token-count", -1); break; }
        default: gen_print_orc (&ps, &b, &st, NULL); nl = count_lines (b.p); vh_buf_printf (&b, ".bogusdirective 1 2 3\n"); c14_run (b.p, b.len, c, "unknown-directive", nl); break;
      }
    } else if (kind < 70) {
      GenPrintStyle st = { 0 }; char nm[32]; int k, nf = 1 + (int) vh_randn (&r, 3);
      st.crlf = vh_chance (&r, 1, 4); st.tabs = vh_chance (&r, 1, 3); st.spaces_after_comma = vh_chance (&r, 1, 2); st.comments = 1; st.blank_lines = 1; st.hex = vh_chance (&r, 1, 2);
      for (k = 0; k < nf; k++) { snprintf (nm, sizeof nm, "f%ld_%d", c, k); gen_init (&ps, nm); if (gen_random (&ps, &r, ALLP, 1 + (int) vh_randn (&r, 10))) gen_print_orc (&ps, &b, &st, &r); }
      if (!b.p) continue;
      c14_mutate_text (&b, &r);
      c14_run (b.p, b.len, c, "mutated", -1);
    } else if (kind < 85) {
      /* word soup */
      int k, nw = 1 + (int) vh_randn (&r, 120);
      for (k = 0; k < nw; k++) vh_buf_printf (&b, "%s%s", c14_words[vh_randn (&r, NWORDS)], vh_chance (&r, 1, 5) ? "\n" : vh_chance (&r, 1, 6) ? "," : " ");
      c14_run (b.p, b.len, c, "wordsoup", -1);
    } else if (kind < 97) {
      /* random bytes (NUL free) */
      size_t k, n = 1 + vh_randn (&r, 600); vh_buf_reserve (&b, n + 1);
      for (k = 0; k < n; k++) b.p[k] = (char) (1 + vh_randn (&r, 255));
      b.p[n] = 0; b.len = n;
      c14_run (b.p, b.len, c, "randombytes", -1);
    } else {
      /* very long line */
      size_t k, n = 20000 + vh_randn (&r, 100000); vh_buf_printf (&b, ".function longline\n.dest 1 d1\n.source 1 s1\ncopyb d1, s1 #"); vh_buf_reserve (&b, n + 2);
      for (k = 0; k < n; k++) b.p[b.len++] = 'x'; b.p[b.len++] = '\n'; b.p[b.len] = 0;
      c14_run (b.p, b.len, c, "longline", -1);
    }
    free (b.p);
    if ((c & 255) == 0) vh_flush ();
  }
}

/* c15: independent printer -> parser vs construction API */
static void print_literal (VhBuf *b, const PVar *v, VhRng *r, int isfloat)
{
  /* several spellings of the same bit pattern; what is printed is what is expected */
  if (isfloat && v->size == 4) {
    float f; uint32_t u = (uint32_t) v->value; memcpy (&f, &u, 4);
    vh_buf_printf (b, "%.9g", (double) f); if (!strpbrk (b->p + b->len - 1, "")) { }
    return;
  }
  if (v->size == 8) {
    if (vh_chance (r, 1, 2)) vh_buf_printf (b, "0x%llxL", (unsigned long long) v->value); else vh_buf_printf (b, "%lldL", (long long) v->value);
  } else {
    uint32_t u = (uint32_t) v->value;
    switch (vh_randn (r, 3)) { case 0: vh_buf_printf (b, "0x%x", u); break; case 1: vh_buf_printf (b, "%d", (int32_t) u); break; default: if ((int32_t) u >= 0) vh_buf_printf (b, "%u", u); else vh_buf_printf (b, "%d", (int32_t) u); break; }
  }
}

static void c15_print (const ProgSpec *ps, VhBuf *b, VhRng *r, int rendering)
{
  GenPrintStyle st = { 0 };
  st.crlf = (rendering & 1); st.tabs = (rendering >> 1) & 1; st.spaces_after_comma = !((rendering >> 2) & 1); st.comments = rendering != 0; st.blank_lines = rendering != 0; st.hex = (rendering >> 1) & 1;
  gen_print_no_l = rendering ? (int) vh_randn (r, 2) : 0;
  gen_print_orc (ps, b, &st, rendering ? r : NULL);
  gen_print_no_l = 0;
  (void) print_literal;
}

/* Literal operands: every constant written in place (`addw d1, s1, 128`) instead of being declared.  The parser creates such
 * a constant when it first meets it, so the API-built counterpart declares the constants in order of first use.
 * Returns 0 when the spec has a constant no instruction uses (then there is no such text). */
static int c15_literal_spec (const ProgSpec *ps, ProgSpec *out)
{
  int order[GEN_MAX_VARS], no = 0, slots[GEN_MAX_VARS], ns = 0, map[GEN_MAX_VARS], i, q, k, j;
  for (q = 0; q < ps->ninsns; q++) { const RefOp *op = gen_op (&ps->insns[q]); for (k = 0; k < 4; k++) if (op->ssz[k]) { int v = ps->insns[q].src[k];
      if (v >= 0 && ps->vars[v].kind == VK_CONST) { for (j = 0; j < no; j++) if (order[j] == v) break; if (j == no) order[no++] = v; } } }
  for (i = 0; i < ps->nvars; i++) if (ps->vars[i].kind == VK_CONST) slots[ns++] = i;
  if (ns == 0 || ns != no) return 0;
  /* two constants of the same size and value are one literal: no text denotes the two-constant program */
  for (i = 0; i < no; i++) for (j = 0; j < i; j++) if (ps->vars[order[i]].size == ps->vars[order[j]].size && ((ps->vars[order[i]].value ^ ps->vars[order[j]].value) & ref_mask (ps->vars[order[i]].size)) == 0) return 0;
  *out = *ps;
  for (i = 0; i < ps->nvars; i++) map[i] = i;
  for (j = 0; j < ns; j++) { out->vars[slots[j]] = ps->vars[order[j]]; map[order[j]] = slots[j]; }
  for (q = 0; q < out->ninsns; q++) { const RefOp *op = gen_op (&out->insns[q]); for (k = 0; k < 4; k++) if (op->ssz[k] && out->insns[q].src[k] >= 0) out->insns[q].src[k] = map[ps->insns[q].src[k]]; }
  return 1;
}

static void c15_one (ProgSpec *ps, long caseidx, VhRng *r)
{
  OrcProgram *api = gen_build (ps); int k; char what[300];
  OrcBytecode *bc_api = orc_bytecode_from_program (api);
  for (k = 0; k < 4; k++) {
    VhBuf b = { 0 }; OrcProgram **progs = NULL; int np = 0, ne = 0, i; OrcParseError **errs = NULL;
    if (k == 3) {
      ProgSpec lit; GenPrintStyle st = { 0 };
      if (!c15_literal_spec (ps, &lit)) break;
      orc_bytecode_free (bc_api); orc_program_free (api);
      api = gen_build (&lit); bc_api = orc_bytecode_from_program (api);
      st.spaces_after_comma = vh_chance (r, 1, 2); st.hex = vh_chance (r, 1, 2); st.inline_consts = 1; st.tabs = vh_chance (r, 1, 4);
      gen_print_no_l = vh_chance (r, 1, 2);
      gen_print_orc (&lit, &b, &st, NULL);
      gen_print_no_l = 0;
      vh_count ("c15.literal_renderings", 1);
    } else
    c15_print (ps, &b, r, k == 0 ? 0 : 1 + (int) vh_randn (r, 7));
    orc_parse_code (b.p, &progs, &np, &errs, &ne);
    vh_count ("c15.renderings", 1);
    if (ne > 0 || np != 1) {
      VhBuf eb = { 0 };
      snprintf (what, sizeof what, "valid rendering %d parsed with %d errors and %d programs (first error line %d: %s)", k, ne, np, ne ? errs[0]->line_number : 0, ne ? errs[0]->text : "");
      vh_buf_jstr (&eb, b.p);
      spec_viol ("C15", "c15", "valid-text-rejected", what, ps, caseidx, eb.p); free (eb.p);
    } else {
      if (compare_programs (api, progs[0], what, sizeof what, k != 3 /* the names the parser invents for literals are not part of the program */)) {
        char sigt[140], *sp; VhBuf eb = { 0 };
        snprintf (sigt, sizeof sigt, "field|%s", what);
        for (sp = sigt; *sp; sp++) if (*sp >= '0' && *sp <= '9') *sp = 'N';
        { char *col = strstr (sigt, " N"); if (col) *col = 0; }
        vh_buf_jstr (&eb, b.p);
        spec_viol ("C15", "c15", sigt, what, ps, caseidx, eb.p); free (eb.p);
      } else {
        OrcBytecode *bc = orc_bytecode_from_program (progs[0]);
        if (bc->length != bc_api->length || memcmp (bc->bytecode, bc_api->bytecode, bc->length)) spec_viol ("C15", "c15", "bytecode-differs", "parsed program and API-built program serialise differently", ps, caseidx, NULL);
        orc_bytecode_free (bc);
        vh_count ("c15.equal", 1);
      }
    }
    for (i = 0; i < np; i++) orc_program_free (progs[i]);
    free (progs); if (errs) orc_parse_error_freev (errs);
    free (b.p);
  }
  /* "an error-free parse never drops instructions": the plain rendering with one operand of one instruction replaced by a name
   * nothing declares either reports an error or yields all the instructions (on a correct parser: always the former) */
  if (ps->ninsns > 0) {
    VhBuf b = { 0 }, m = { 0 }; OrcProgram **progs = NULL; int np = 0, ne = 0, i, q = (int) vh_randn (r, (uint32_t) ps->ninsns), opnd = (int) vh_randn (r, 3), nlines = 0, line = 0; OrcParseError **errs = NULL;
    const char *c, *ls; int done = 0;
    gen_print_orc (ps, &b, NULL, NULL);
    for (c = b.p; *c; c++) if (*c == '\n') nlines++;
    for (ls = c = b.p; *c; c++) if (*c == '\n') {
      if (line == nlines - ps->ninsns + q) {
        /* tokens: [xN] mnemonic op1, op2, ... : replace operand number opnd (or the last one there is) */
        const char *t = ls, *e = c; int tok = 0, want;
        if (t[0] == 'x' && (t[1] == '2' || t[1] == '4') && t[2] == ' ') t += 3;
        while (t < e && *t != ' ') t++;
        vh_buf_printf (&m, "%.*s", (int) (t - ls), ls);
        { int nops = 1; const char *u; for (u = t; u < e; u++) if (*u == ',') nops++; want = opnd < nops ? opnd : nops - 1; }
        while (t < e) {
          const char *u = t; while (u < e && *u != ',') u++;
          if (tok == want) { vh_buf_printf (&m, " zz9"); done = 1; } else vh_buf_printf (&m, "%.*s", (int) (u - t), t);
          if (u < e) vh_buf_printf (&m, ",");
          t = u < e ? u + 1 : e; tok++;
        }
        vh_buf_printf (&m, "\n");
      } else vh_buf_printf (&m, "%.*s\n", (int) (c - ls), ls);
      ls = c + 1; line++;
    }
    if (done) {
      orc_parse_code (m.p, &progs, &np, &errs, &ne);
      vh_count ("c15.undeclared_operand_texts", 1);
      if (ne > 0) vh_count ("c15.undeclared_operand_reported", 1);
      else if (np != 1 || progs[0]->n_insns != ps->ninsns) {
        VhBuf eb = { 0 };
        snprintf (what, sizeof what, "a text whose instruction %d names an undeclared operand parsed without any error, yet the program has %d of the %d instructions", q, np == 1 ? progs[0]->n_insns : -1, ps->ninsns);
        vh_buf_jstr (&eb, m.p);
        spec_viol ("C15", "c15", "error-free-parse-dropped-instruction", what, ps, caseidx, eb.p); free (eb.p);
      }
      for (i = 0; i < np; i++) orc_program_free (progs[i]);
      free (progs); if (errs) orc_parse_error_freev (errs);
    }
    free (b.p); free (m.p);
  }
  orc_bytecode_free (bc_api);
  orc_program_free (api);
}

static void mode_c15 (void)
{
  long c, N1 = n_single, Nr = vh_args.thorough ? 600000 : 80000, total = N1 + Nr;
  for (c = 0; c < total; c++) {
    ProgSpec ps; VhRng r; char desc[100]; int ok = 1, i;
    if (!vh_my_case (c)) continue;
    vh_rng_init (&r, vh_args.seed, (uint64_t) c);
    if (c < N1) build_single (&ps, &single_forms[c], &r);
    else { char nm[32]; snprintf (nm, sizeof nm, "rand_%ld", c); gen_init (&ps, nm); ok = gen_random (&ps, &r, ALLP, 1 + (int) vh_randn (&r, 16)); }
    snprintf (desc, sizeof desc, "c15 %s", ps.name); vh_progress (c, desc);
    if (!ok || !gen_valid (&ps)) continue;
    {
      /* the .orc format does not allow a destination to be written twice (the parser's sanity check rejects it): such specs are not valid text */
      int wr[GEN_MAX_VARS] = { 0 }, q, k2, multi = 0;
      for (q = 0; q < ps.ninsns; q++) for (k2 = 0; k2 < 2; k2++) if (gen_op (&ps.insns[q])->dsz[k2] && ps.vars[ps.insns[q].dest[k2]].kind == VK_DEST && wr[ps.insns[q].dest[k2]]++) multi = 1;
      if (multi) { vh_count ("c15.skipped_multiple_dest_writes", 1); continue; }
    }
    for (i = 0; i < ps.nvars; i++) if (ps.vars[i].kind == VK_PARAM && ps.vars[i].size == 8 && vh_chance (&r, 1, 2)) ps.vars[i].ptype = PT_DOUBLE; else if (ps.vars[i].kind == VK_PARAM && ps.vars[i].size == 4 && vh_chance (&r, 1, 3)) ps.vars[i].ptype = PT_FLOAT;
    c15_one (&ps, c, &r);
    if ((c & 255) == 0) vh_flush ();
  }
}

/* ------------------------------------------------------------ c16 lifecycle */
static void backup_fn (OrcExecutor *ex) { (void) ex; }

static void c16_sequence (VhRng *r, long caseidx, int steps)
{
  /* ownership model: prog (may be NULL), code objects taken (list) */
  OrcProgram *p = NULL; OrcCode *codes[8]; int ncodes = 0, s; ProgSpec ps; int have_spec = 0, compiled = 0;
  OrcExecutor *pex = NULL;   /* a program-attached executor that lives as long as the program object, across compiles and resets */
  OrcTarget *tg[4] = { orc_target_get_by_name ("sse"), orc_target_get_by_name ("avx"), orc_target_get_by_name ("c"), orc_target_get_by_name ("neon") };
  for (s = 0; s < steps; s++) {
    int op = (int) vh_randn (r, 15);
    vh_set_addf ("c16.ops", "%d", op);
    switch (op) {
      case 0: case 1:
        if (!p) { char nm[32]; snprintf (nm, sizeof nm, "life_%ld_%d", caseidx, s); gen_init (&ps, nm);
          /* mostly small programs; one in six is long enough to need compiler variable slots beyond the 64 user-visible ones */
          have_spec = gen_random (&ps, r, GP_INT | GP_ACC | GP_FLOAT, vh_chance (r, 1, 6) ? 12 + (int) vh_randn (r, 28) : 1 + (int) vh_randn (r, 6)) && !program_uses_special_or_big (&ps);
          if (have_spec) { p = gen_build (&ps); compiled = 0; vh_count ("c16.new", 1); } }
        break;
      case 2: case 3:
        if (p) { OrcTarget *t = tg[vh_randn (r, 4)]; OrcCompileResult res = vh_chance (r, 1, 3) ? orc_program_compile (p) : orc_program_compile_for_target (p, t); compiled = !ORC_COMPILE_RESULT_IS_FATAL (res) && p->orccode != NULL; vh_countf (1, "c16.compile.%s", ORC_COMPILE_RESULT_IS_SUCCESSFUL (res) ? "ok" : ORC_COMPILE_RESULT_IS_FATAL (res) ? "fatal" : "nonfatal"); }
        break;
      case 4:
        if (p && compiled && ncodes < 8) { OrcCode *c = orc_program_take_code (p); if (c) { codes[ncodes++] = c; compiled = 0; vh_count ("c16.take_code", 1); } }
        break;
      case 5:
        if (p) { orc_program_reset (p); compiled = 0; vh_count ("c16.reset", 1); }
        break;
      case 6:
        if (p && compiled) { tiny_emulate (p, 9); vh_count ("c16.emulate", 1); }
        break;
      case 7:
        if (p) { if (pex) { orc_executor_free (pex); pex = NULL; } orc_program_free (p); p = NULL; compiled = 0; vh_count ("c16.free_program", 1); }
        break;
      case 12:
        if (p && !pex) { pex = orc_executor_new (p); vh_count ("c16.attached_executor_new", 1); }
        break;
      case 13:
        if (p && pex && compiled) { tiny_emulate_ex (p, pex, 9); vh_count ("c16.emulate_through_kept_executor", 1); }
        break;
      case 14: {
        /* a program with more than one thing wrong (too many sources, too many temporaries, an unknown operand): compile fails, reset, free */
        OrcProgram *bad = orc_program_new (); int k; char nm[16];
        orc_program_add_destination (bad, 2, "d1");
        for (k = 0; k < 8 + (int) vh_randn (r, 3); k++) { snprintf (nm, sizeof nm, "s%d", k + 1); orc_program_add_source (bad, 2, nm); }
        for (k = 0; k < 15 + (int) vh_randn (r, 5); k++) { snprintf (nm, sizeof nm, "t%d", k + 1); orc_program_add_temporary (bad, 2, nm); }
        orc_program_append_str (bad, "addw", "d1", "s1", "s2");
        if (vh_chance (r, 1, 2)) orc_program_append_str (bad, "addw", "d1", "nosuch", "s2");
        (void) orc_program_compile (bad);
        if (vh_chance (r, 1, 2)) { orc_program_reset (bad); (void) orc_program_compile_for_target (bad, tg[vh_randn (r, 4)]); }
        orc_program_free (bad);
        vh_count ("c16.multi_error_program", 1);
        break; }
      case 8:
        if (ncodes) { int k = (int) vh_randn (r, ncodes); orc_code_free (codes[k]); codes[k] = codes[--ncodes]; vh_count ("c16.free_code", 1); }
        break;
      case 9:
        if (p) { orc_program_set_backup_function (p, backup_fn); vh_count ("c16.set_backup", 1); }
        break;
      case 10:
        if (ncodes) {
          /* run a taken code object through a code-only executor (emulation path of the detached code) */
          OrcCode *c = codes[vh_randn (r, ncodes)]; OrcExecutor ex; static uint8_t buf[ORC_N_VARIABLES][2048]; int i;
          memset (&ex, 0, sizeof ex); ex.arrays[ORC_VAR_A2] = c; ex.n = 7;
          for (i = 0; i < ORC_N_VARIABLES; i++) { ex.arrays[i] = (i == ORC_VAR_A2 || i == ORC_VAR_A1) ? ex.arrays[i] : (void *) (buf[i] + 512); ex.params[i] = 2; }
          ex.params[ORC_VAR_A1] = 1;
          orc_executor_emulate (&ex);
          vh_count ("c16.run_code_only", 1);
        }
        break;
      default:
        if (p && have_spec) {
          /* bytecode round trip and parse of the printed text, freed immediately */
          OrcBytecode *bc = orc_bytecode_from_program (p); OrcProgram *q = orc_program_new_from_static_bytecode (bc->bytecode);
          if (q) orc_program_free (q);
          orc_bytecode_free (bc); vh_count ("c16.bytecode_roundtrip", 1);
        }
        break;
    }
  }
  if (pex) orc_executor_free (pex);
  if (p) orc_program_free (p);
  while (ncodes) orc_code_free (codes[--ncodes]);
}

/* the parser owns objects too (programs, error records, the init-function name, the log): .orc text of 1..3 programs with directive lines
 * repeated, truncated or misplaced, through both entry points; everything it returns is read and released exactly once (ASan/LSan judge) */
static void c16_parse (VhRng *r, long caseidx)
{
  static const char *noise[] = { ".init c16_init\n", ".init\n", ".init a b\n", ".init other_init\n", ".function\n", ".backup\n", ".backup bk\n", ".source 2\n", ".flags 2d\n", ".flags\n",
    ".n 8\n", ".n\n", ".m 2\n", ".dest 3 d9\n", "addw d1, s1\n", ".temp 2\n", ".const 4 c9 1\n", ".param 4\n", ".function c16dup\n", "\n", "# c\n", ".name\n", ".accumulator 4 a9 int\n", "x4 \n" };
  VhBuf b = { 0 }; int np = 1 + (int) vh_randn (r, 3), k, i, nprog = 0, nerr = 0; OrcProgram **progs = NULL; OrcParseError **errs = NULL;
  for (k = 0; k < np; k++) {
    ProgSpec ps; char nm[32]; VhBuf t = { 0 }; char *q, *nl; int pos = 0;
    snprintf (nm, sizeof nm, "c16p%ld_%d", caseidx, k); gen_init (&ps, nm);
    while (vh_chance (r, 1, 3)) vh_buf_printf (&b, "%s", noise[vh_randn (r, sizeof noise / sizeof noise[0])]);
    if (!gen_random (&ps, r, GP_INT | GP_ACC, 1 + (int) vh_randn (r, 5))) continue;
    gen_print_orc (&ps, &t, NULL, NULL);
    /* copy line by line, now and then slipping a noise line in between */
    for (q = t.p; q && *q; q = nl ? nl + 1 : NULL, pos++) {
      nl = strchr (q, '\n');
      vh_buf_printf (&b, "%.*s\n", nl ? (int) (nl - q) : (int) strlen (q), q);
      if (vh_chance (r, 1, 6)) vh_buf_printf (&b, "%s", noise[vh_randn (r, sizeof noise / sizeof noise[0])]);
    }
    free (t.p);
  }
  if (!b.p) return;
  if (vh_chance (r, 1, 2)) {
    orc_parse_code (b.p, &progs, &nprog, &errs, &nerr);
    for (i = 0; i < nerr; i++) if (errs[i] && errs[i]->text) vh_count ("c16.parse_error_bytes_read", strlen (errs[i]->text));
    if (errs) orc_parse_error_freev (errs);
  } else {
    static char marker[] = ""; char *log = marker;
    nprog = orc_parse_full (b.p, &progs, &log);
    if (log && log != marker) { vh_count ("c16.parse_log_bytes_read", strlen (log)); free (log); }
  }
  if (nprog > 0 && progs[0]) { const char *in = orc_parse_get_init_function (progs[0]); if (in) vh_count ("c16.parse_init_name_bytes_read", strlen (in)); }
  for (i = 0; i < nprog; i++) if (progs[i]) {
    if (progs[i]->name) vh_count ("c16.parse_name_bytes_read", strlen (progs[i]->name));
    if (vh_chance (r, 1, 3) && progs[i]->n_insns <= ORC_N_INSNS) orc_program_compile_for_target (progs[i], orc_target_get_by_name ("sse"));
    orc_program_free (progs[i]);
  }
  free (progs);
  vh_count ("c16.parsed_texts", 1); vh_count ("c16.parsed_programs", (uint64_t) (nprog > 0 ? nprog : 0));
  free (b.p);
}

static void mode_c16 (void)
{
  long c, total = vh_args.thorough ? 60000 : 8000;
  struct mallinfo2 m0, m1, m2;
  for (c = 0; c < total; c++) {
    VhRng r; char desc[60];
    if (!vh_my_case (c)) continue;
    vh_rng_init (&r, vh_args.seed, (uint64_t) c);
    snprintf (desc, sizeof desc, "c16 sequence %ld", c); vh_progress (c, desc);
    c16_sequence (&r, c, 4 + (int) vh_randn (&r, 30));
    vh_count ("c16.sequences", 1);
    c16_parse (&r, c);
    if ((c & 255) == 0) vh_flush ();
  }
  /* growth: the same loop for K and 4K iterations */
  if (vh_args.shard == 0 && vh_args.only < 0) {
    VhRng r; long k, K = vh_args.thorough ? 4000 : 1000;
    vh_progress (total, "c16 growth loop");
    vh_rng_init (&r, vh_args.seed, 999999);
    for (k = 0; k < 200; k++) c16_sequence (&r, 0, 20);   /* warm up */
    m0 = mallinfo2 ();
    for (k = 0; k < K; k++) c16_sequence (&r, 0, 20);
    m1 = mallinfo2 ();
    for (k = 0; k < 3 * K; k++) c16_sequence (&r, 0, 20);
    m2 = mallinfo2 ();
    vh_count ("c16.growth.bytes_after_K", (uint64_t) (m1.uordblks > m0.uordblks ? m1.uordblks - m0.uordblks : 0));
    vh_count ("c16.growth.bytes_after_4K", (uint64_t) (m2.uordblks > m0.uordblks ? m2.uordblks - m0.uordblks : 0));
    if (m2.uordblks > m0.uordblks + 65536 && (m2.uordblks - m0.uordblks) > 2 * (m1.uordblks > m0.uordblks ? m1.uordblks - m0.uordblks : 0) + 65536) {
      char what[200]; snprintf (what, sizeof what, "heap in use grew by %ld bytes after %ld iterations and by %ld bytes after %ld iterations of the same lifecycle loop", (long) (m1.uordblks - m0.uordblks), K, (long) (m2.uordblks - m0.uordblks), 4 * K);
      spec_viol ("C16", "c16", "heap-growth", what, NULL, total, NULL);
    }
  }
}

/* ------------------------------------------------------------ c17 determinism */
typedef struct { unsigned char *code; int size; char *asm_; OrcCompileResult res; } Snap;
static void snap_take (Snap *s, OrcProgram *p, OrcCompileResult res)
{
  memset (s, 0, sizeof *s); s->res = res;
  if (p->orccode && p->orccode->code && p->orccode->code_size > 0 && ORC_COMPILE_RESULT_IS_SUCCESSFUL (res)) { s->size = p->orccode->code_size; s->code = malloc (s->size); memcpy (s->code, p->orccode->code, s->size); }
  if (orc_program_get_asm_code (p)) s->asm_ = strdup (orc_program_get_asm_code (p));
}
static void snap_free (Snap *s) { free (s->code); free (s->asm_); }
static int snap_equal (const Snap *a, const Snap *b, char *what, size_t cap)
{
  if (a->res != b->res) { snprintf (what, cap, "compile result %#x vs %#x", a->res, b->res); return 0; }
  if (a->size != b->size) { snprintf (what, cap, "code size %d vs %d", a->size, b->size); return 0; }
  if (a->size && memcmp (a->code, b->code, a->size)) { int i; for (i = 0; i < a->size && a->code[i] == b->code[i]; i++) ; snprintf (what, cap, "code bytes differ at offset %d of %d", i, a->size); return 0; }
  if ((a->asm_ == NULL) != (b->asm_ == NULL) || (a->asm_ && strcmp (a->asm_, b->asm_))) { snprintf (what, cap, "listings differ"); return 0; }
  return 1;
}

static void c17_history (VhRng *r)
{
  /* compile/free a few unrelated programs so that code memory is laid out differently */
  int k, n = 1 + (int) vh_randn (r, 6); OrcProgram *keep[6]; int nk = 0;
  OrcTarget *sse = orc_target_get_by_name ("sse");
  for (k = 0; k < n; k++) {
    ProgSpec ps; OrcProgram *p; gen_init (&ps, "hist");
    if (!gen_random (&ps, r, GP_INT | GP_FLOAT | GP_ACC, 1 + (int) vh_randn (r, 12))) continue;
    p = gen_build (&ps); orc_program_compile_for_target (p, sse);
    if (vh_chance (r, 1, 2) && nk < 6) keep[nk++] = p; else orc_program_free (p);
  }
  while (nk) orc_program_free (keep[--nk]);
}

/* what "ran before" leaves behind: every vector register (and, for mmx code, every MMX register) filled with a pattern; all of
 * them are caller-saved, so code that is correct cannot depend on their contents at entry */
static void __attribute__ ((noinline)) dirty_vregs (uint32_t pat, int mmx)
{
  static int has_avx = -1;
  if (has_avx < 0) has_avx = __builtin_cpu_supports ("avx") ? 1 : 0;
#define DV(N) "movd %0, %%xmm" #N "\n\tpshufd $0, %%xmm" #N ", %%xmm" #N "\n\t"
  __asm__ volatile (DV (0) DV (1) DV (2) DV (3) DV (4) DV (5) DV (6) DV (7) DV (8) DV (9) DV (10) DV (11) DV (12) DV (13) DV (14) DV (15)
      : : "r" (pat) : "xmm0", "xmm1", "xmm2", "xmm3", "xmm4", "xmm5", "xmm6", "xmm7", "xmm8", "xmm9", "xmm10", "xmm11", "xmm12", "xmm13", "xmm14", "xmm15");
#undef DV
  if (has_avx) {
#define DY(N) "vinsertf128 $1, %%xmm" #N ", %%ymm" #N ", %%ymm" #N "\n\t"
    __asm__ volatile (DY (0) DY (1) DY (2) DY (3) DY (4) DY (5) DY (6) DY (7) DY (8) DY (9) DY (10) DY (11) DY (12) DY (13) DY (14) DY (15)
        : : : "xmm0", "xmm1", "xmm2", "xmm3", "xmm4", "xmm5", "xmm6", "xmm7", "xmm8", "xmm9", "xmm10", "xmm11", "xmm12", "xmm13", "xmm14", "xmm15");
#undef DY
  }
  if (mmx) {
#define DM(N) "movd %0, %%mm" #N "\n\tpunpckldq %%mm" #N ", %%mm" #N "\n\t"
    __asm__ volatile (DM (0) DM (1) DM (2) DM (3) DM (4) DM (5) DM (6) DM (7) : : "r" (pat) : "mm0", "mm1", "mm2", "mm3", "mm4", "mm5", "mm6", "mm7");
#undef DM
  }
}
static uint32_t tiny_dirty; static int tiny_dirty_on, tiny_dirty_mmx;

/* native run of a compiled program on fixed inputs through a given (possibly already used) executor; returns a checksum of the destinations */
static uint64_t tiny_native (OrcProgram *p, OrcExecutor *ex, int n, int off)
{
  static uint8_t bufs[ORC_N_VARIABLES][8192];
  uint64_t h = 1469598103934665603ULL; int i, j;
  orc_executor_set_n (ex, n);
  if (p->is_2d) orc_executor_set_m (ex, 2);
  for (i = 0; i < ORC_N_VARIABLES; i++) {
    OrcVariable *v = &p->vars[i];
    if (!v->size) continue;
    if (v->vartype == ORC_VAR_TYPE_SRC || v->vartype == ORC_VAR_TYPE_DEST) {
      for (j = 0; j < 8192; j++) bufs[i][j] = (uint8_t) (j * 11 + i * 5 + 3);
      orc_executor_set_array (ex, i, bufs[i] + 2048 + off * v->size);
      if (p->is_2d) orc_executor_set_stride (ex, i, 2048);
    } else if (v->vartype == ORC_VAR_TYPE_PARAM) {
      if (v->size == 8) orc_executor_set_param_int64 (ex, i, 3); else orc_executor_set_param (ex, i, 3);
    }
  }
  if (tiny_dirty_on) dirty_vregs (tiny_dirty, tiny_dirty_mmx);
  orc_executor_run (ex);
  if (tiny_dirty_on && tiny_dirty_mmx) __asm__ volatile ("emms");
  for (i = 0; i < ORC_N_VARIABLES; i++) if (p->vars[i].size && p->vars[i].vartype == ORC_VAR_TYPE_DEST)
    for (j = 0; j < 8192; j++) h = (h ^ bufs[i][j]) * 1099511628211ULL;
  for (i = 0; i < 4; i++) h = (h ^ (uint32_t) ex->accumulators[i]) * 1099511628211ULL;
  return h;
}

static void c17_one (ProgSpec *ps, long caseidx, VhRng *r)
{
  int ti;
  for (ti = 0; ti < n_all_targets; ti++) {
    OrcTarget *t = all_targets[ti]; unsigned flags = orc_target_get_default_flags (t);
    OrcProgram *p1 = gen_build (ps), *p2; Snap a, b, c; OrcCompileResult res; char what[200];
    OrcProgram *pin[4]; int npin = 0, k;
    res = orc_program_compile_full (p1, t, flags); snap_take (&a, p1, res);
    /* other history: pin some code memory so the next result lands elsewhere */
    c17_history (r);
    for (k = 0; k < 3; k++) { ProgSpec q; gen_init (&q, "pin"); if (gen_random (&q, r, GP_INT, 1 + (int) vh_randn (r, 8))) { pin[npin] = gen_build (&q); orc_program_compile_for_target (pin[npin], orc_target_get_by_name ("sse")); npin++; } }
    p2 = gen_build (ps);
    res = orc_program_compile_full (p2, t, flags); snap_take (&b, p2, res);
    vh_count ("c17.pairs", 1);
    if (a.code && b.code && p1->orccode && p2->orccode && p1->orccode->code != p2->orccode->code) vh_count ("c17.different_placement", 1);
    if (!snap_equal (&a, &b, what, sizeof what)) {
      char sg[120]; snprintf (sg, sizeof sg, "history|%s|%s", t->name, strstr (what, "listing") ? "listing" : strstr (what, "bytes") ? "bytes" : strstr (what, "size") ? "size" : "result");
      spec_viol ("C17", "c17", sg, what, ps, caseidx, NULL);
    }
    /* reset + recompile; a program compiled in between bounds p2's chunk so that the recompile is an exact-fit reuse of it */
    { ProgSpec q; gen_init (&q, "fence"); if (npin < 4 && gen_random (&q, r, GP_INT, 1 + (int) vh_randn (r, 3))) { pin[npin] = gen_build (&q); orc_program_compile_for_target (pin[npin], orc_target_get_by_name ("sse")); npin++; } }
    orc_program_reset (p2);
    res = orc_program_compile_full (p2, t, flags); snap_take (&c, p2, res);
    if (!snap_equal (&a, &c, what, sizeof what)) {
      char sg[120]; snprintf (sg, sizeof sg, "reset-recompile|%s", t->name);
      spec_viol ("C17", "c17", sg, what, ps, caseidx, NULL);
    }
    /* running the same code on the same inputs gives the same results whatever the executor did before */
    { int hinted = 0, vi; for (vi = 0; vi < ps->nvars; vi++) if (ps->vars[vi].align > ps->vars[vi].size) hinted = 1;   /* declared alignments must be honoured by the caller */
      if (hinted || ps->n_mult || ps->n_min || ps->n_max || ps->const_n) goto no_repeat; }
    if (is_x86 (t) && ORC_COMPILE_RESULT_IS_SUCCESSFUL (res) && p2->orccode && !program_uses_special_or_big (ps)) {
      OrcExecutor *ex = orc_executor_new (p2); uint64_t h1, h2, h3; int nsmall = 1 + (int) (caseidx % 5);
      /* ... and whatever other code left in the (caller-saved) vector registers */
      tiny_dirty_on = 1; tiny_dirty_mmx = !strcmp (t->name, "mmx");
      tiny_dirty = 0x11111111u; h1 = tiny_native (p2, ex, nsmall, 1);
      (void) tiny_native (p2, ex, 100 + (int) (caseidx % 7), 0);
      tiny_dirty = 0xdeadbeefu; h2 = tiny_native (p2, ex, nsmall, 1);
      tiny_dirty = 0; h3 = tiny_native (p2, ex, nsmall, 1);
      tiny_dirty_on = 0;
      orc_executor_free (ex);
      vh_count ("c17.repeat_runs", 1);
      if (h1 != h2 || h2 != h3) {
        char sg[120]; snprintf (sg, sizeof sg, "repeat-run|%s", t->name);
        snprintf (what, sizeof what, "same code, same inputs (n=%d, arrays one element past alignment): result differs after the executor was used for a larger n or with other contents of the vector registers at entry (checksums %016llx %016llx %016llx)", nsmall, (unsigned long long) h1, (unsigned long long) h2, (unsigned long long) h3);
        spec_viol ("C17", "c17", sg, what, ps, caseidx, NULL);
      }
    }
no_repeat:
    /* the code of a program stays what it was when later compiles take memory next to (or, after an exact-fit reuse, at) its chunk */
    if (c.code && p2->orccode) {
      ProgSpec q; OrcProgram *late[2]; int nl = 0; Snap d;
      for (k = 0; k < 2; k++) { gen_init (&q, "late"); if (gen_random (&q, r, GP_INT, 1 + (int) vh_randn (r, 3))) { late[nl] = gen_build (&q); orc_program_compile_for_target (late[nl], orc_target_get_by_name ("sse")); nl++; } }
      snap_take (&d, p2, res);
      vh_count ("c17.late_rechecks", 1);
      if (!snap_equal (&c, &d, what, sizeof what)) {
        char sg[120]; snprintf (sg, sizeof sg, "changed-after-later-compiles|%s", t->name);
        spec_viol ("C17", "c17", sg, what, ps, caseidx, NULL);
      }
      snap_free (&d);
      while (nl) orc_program_free (late[--nl]);
    }
    /* what the program object was compiled for before must not matter: compiled for sse first, then (same object) for this target, then
     * an unrelated compile that may reuse the memory the first code occupied; result class, bytes and what running it computes must be
     * those of a fresh object */
    if (strcmp (t->name, "sse") && !program_uses_special_or_big (ps)) {
      int hinted = 0, vi; for (vi = 0; vi < ps->nvars; vi++) if (ps->vars[vi].align > ps->vars[vi].size) hinted = 1;
      if (!hinted && !ps->n_mult && !ps->n_min && !ps->n_max && !ps->const_n) {
        OrcProgram *p3 = gen_build (ps); OrcCompileResult r1 = orc_program_compile_full (p3, orc_target_get_by_name ("sse"), orc_target_get_default_flags (orc_target_get_by_name ("sse")));
        if (ORC_COMPILE_RESULT_IS_SUCCESSFUL (r1)) {
          OrcCompileResult r3 = orc_program_compile_full (p3, t, flags); Snap e; ProgSpec q; OrcProgram *other = NULL;
          snap_take (&e, p3, r3);
          vh_count ("c17.recompiled_objects", 1);
          if (!snap_equal (&a, &e, what, sizeof what)) {
            char sg[120]; snprintf (sg, sizeof sg, "object-history|%s", t->name);
            spec_viol ("C17", "c17", sg, what, ps, caseidx, NULL);
          }
          gen_init (&q, "other");
          { int oi = gen_op_index ("xorb"); PInsn *in = gen_add_insn (&q, oi, 1); in->dest[0] = gen_add_var (&q, VK_DEST, 1); in->src[0] = gen_add_var (&q, VK_SRC, 1); in->src[1] = gen_add_var (&q, VK_SRC, 1); }
          other = gen_build (&q); orc_program_compile_for_target (other, orc_target_get_by_name ("sse"));
          if (!ORC_COMPILE_RESULT_IS_FATAL (r3) && !ORC_COMPILE_RESULT_IS_FATAL (a.res) && (is_x86 (t) ? 1 : !ORC_COMPILE_RESULT_IS_SUCCESSFUL (r3))) {
            /* runnable here: native x86 code, or the emulation fall-back of a target that produced nothing executable */
            OrcExecutor *e1 = orc_executor_new (p1), *e3 = orc_executor_new (p3); uint64_t h1, h3;
            h1 = tiny_native (p1, e1, 7, 0); h3 = tiny_native (p3, e3, 7, 0);
            orc_executor_free (e1); orc_executor_free (e3);
            vh_count ("c17.recompiled_objects_run", 1);
            if (h1 != h3) {
              char sg[120]; snprintf (sg, sizeof sg, "object-history-run|%s", t->name);
              snprintf (what, sizeof what, "a program object compiled for sse and then for %s computes something else than a fresh object compiled for %s (checksums %016llx vs %016llx)", t->name, t->name, (unsigned long long) h3, (unsigned long long) h1);
              spec_viol ("C17", "c17", sg, what, ps, caseidx, NULL);
            }
          }
          orc_program_free (other);
          snap_free (&e);
        }
        orc_program_free (p3);
      }
    }
    vh_countf (1, "c17.target.%s", t->name);
    snap_free (&a); snap_free (&b); snap_free (&c);
    orc_program_free (p1); orc_program_free (p2);
    while (npin) orc_program_free (pin[--npin]);
  }
}

/* another set of feature flags for the same target (0: the target has no feature subsets to speak of), chosen by the case number */
static unsigned c17_other_flags (OrcTarget *t, long caseidx)
{
  unsigned d = orc_target_get_default_flags (t), k = (unsigned) ((caseidx * 2654435761u) >> 7);
  if (!strcmp (t->name, "sse")) {
    unsigned all = ORC_TARGET_SSE_SSE2 | ORC_TARGET_SSE_SSE3 | ORC_TARGET_SSE_SSSE3 | ORC_TARGET_SSE_SSE4_1 | ORC_TARGET_SSE_SSE4_2, f = ORC_TARGET_SSE_SSE2;
    if (k & 1) f |= ORC_TARGET_SSE_SSE3;
    if ((k & 6) == 6) f |= ORC_TARGET_SSE_SSSE3;
    if ((k & 24) == 24) f |= ORC_TARGET_SSE_SSE4_1;
    f = (d & ~all) | f; return f == d ? ((d & ~all) | ORC_TARGET_SSE_SSE2) : f;
  }
  if (!strcmp (t->name, "mmx")) {
    unsigned all = ORC_TARGET_MMX_MMX | ORC_TARGET_MMX_MMXEXT | ORC_TARGET_MMX_SSSE3 | ORC_TARGET_MMX_SSE4_1 | ORC_TARGET_MMX_3DNOW | ORC_TARGET_MMX_3DNOWEXT, f = ORC_TARGET_MMX_MMX;
    if (k & 1) f |= ORC_TARGET_MMX_MMXEXT;
    if ((k & 6) == 6) f |= ORC_TARGET_MMX_SSSE3;
    f = (d & ~all) | f; return f == d ? ((d & ~all) | ORC_TARGET_MMX_MMX) : f;
  }
  if (!strcmp (t->name, "avx")) return (d & ORC_TARGET_AVX_AVX2) ? (d & ~ORC_TARGET_AVX_AVX2) : 0;
  return 0;
}

static uint64_t c17_hash_prog (OrcProgram *p, OrcCompileResult res)
{
  uint64_t h = 1469598103934665603ULL; int i; const char *a;
  h = (h ^ (uint64_t) res) * 1099511628211ULL;
  if (p->orccode && p->orccode->code && ORC_COMPILE_RESULT_IS_SUCCESSFUL (res)) for (i = 0; i < p->orccode->code_size; i++) h = (h ^ p->orccode->code[i]) * 1099511628211ULL;
  a = orc_program_get_asm_code (p);
  if (a) for (; *a; a++) h = (h ^ (unsigned char) *a) * 1099511628211ULL;
  return h;
}

/* C17_FLAGHIST=1: the same program is first compiled for the same target under another feature-flag set, then under the default flags;
 * C17_FLAGHIST=2: the other way round.  Both results are hashed: neither may depend on which came first. */
static void c17_flag_compile (ProgSpec *ps, long caseidx, OrcTarget *t)
{
  unsigned f2 = c17_other_flags (t, caseidx); OrcProgram *p; OrcCompileResult res;
  if (!f2) return;
  p = gen_build (ps); res = orc_program_compile_full (p, t, f2);
  vh_set_addf ("c17fhash", "%ld:%s/%#x:%016llx", caseidx, t->name, f2, (unsigned long long) c17_hash_prog (p, res));
  vh_count ("c17.flag_history_compiles", 1);
  orc_program_free (p);
}

/* emit hash of code+listing per (case,target) for cross-process comparison (debug levels, fresh process) */
static void c17_hash_one (ProgSpec *ps, long caseidx)
{
  int ti; const char *fh = getenv ("C17_FLAGHIST"); int fhm = fh ? atoi (fh) : 0;
  for (ti = 0; ti < n_all_targets; ti++) {
    OrcTarget *t = all_targets[ti]; OrcProgram *p; uint64_t h = 1469598103934665603ULL; int i; const char *a;
    OrcCompileResult res;
    if (fhm == 1) c17_flag_compile (ps, caseidx, t);
    p = gen_build (ps);
    res = orc_program_compile_full (p, t, orc_target_get_default_flags (t));
    if (fhm == 2) c17_flag_compile (ps, caseidx, t);
    h = (h ^ (uint64_t) res) * 1099511628211ULL;
    if (p->orccode && p->orccode->code && ORC_COMPILE_RESULT_IS_SUCCESSFUL (res)) for (i = 0; i < p->orccode->code_size; i++) h = (h ^ p->orccode->code[i]) * 1099511628211ULL;
    a = orc_program_get_asm_code (p);
    if (a) for (; *a; a++) h = (h ^ (unsigned char) *a) * 1099511628211ULL;
    vh_set_addf ("c17hash", "%ld:%s:%016llx", caseidx, t->name, (unsigned long long) h);
    /* what a differing hash is made of (only used for the witness text) */
    vh_set_addf ("c17info", "%ld:%s:result %#x, %d code bytes, listing %s%s", caseidx, t->name, (unsigned) res, (p->orccode && ORC_COMPILE_RESULT_IS_SUCCESSFUL (res)) ? p->orccode->code_size : 0,
        orc_program_get_asm_code (p) ? "present" : "absent", orc_program_get_error (p) ? orc_program_get_error (p) : "");
    if (getenv ("C17_DUMPDIR") && getenv ("ORC_CODE")) {
      /* debugging aid: everything the hash is made of, one file per (case, target, number of shards) */
      char fn[300]; FILE *f; snprintf (fn, sizeof fn, "%s/%ld-%s-%d.txt", getenv ("C17_DUMPDIR"), caseidx, t->name, vh_args.nshards);
      f = fopen (fn, "w"); if (f) { fprintf (f, "result %#x error %s\n%s\n", (unsigned) res, orc_program_get_error (p) ? orc_program_get_error (p) : "-", orc_program_get_asm_code (p) ? orc_program_get_asm_code (p) : "(no listing)");
        if (p->orccode && p->orccode->code) for (i = 0; i < p->orccode->code_size; i++) fprintf (f, "%02x%s", p->orccode->code[i], (i & 31) == 31 ? "\n" : ""); fclose (f); }
    }
    if (getenv ("C17_DUMP") && atol (getenv ("C17_DUMP")) == caseidx) {
      char fn[64]; FILE *f; snprintf (fn, sizeof fn, "c17dump-%s-%d.txt", t->name, (int) getpid ());
      f = fopen (fn, "w"); if (f) { fprintf (f, "result %#x error %s\n%s\n", (unsigned) res, orc_program_get_error (p) ? orc_program_get_error (p) : "-", orc_program_get_asm_code (p) ? orc_program_get_asm_code (p) : "(no listing)"); fclose (f); }
    }
    orc_program_free (p);
  }
}

static void mode_c17 (int hash_only)
{
  long c, N1 = n_single, Nr = vh_args.thorough ? 40000 : 6000, total = N1 + Nr;
  if (hash_only) { N1 = n_single; Nr = vh_args.thorough ? 3000 : 500; total = N1 + Nr; }
  for (c = 0; c < total; c++) {
    ProgSpec ps; VhRng r; char desc[100]; int ok = 1;
    if (!vh_my_case (c)) continue;
    if (hash_only && c < N1 && (c % 4)) continue;
    vh_rng_init (&r, vh_args.seed, (uint64_t) c);
    if (c < N1) build_single (&ps, &single_forms[c], &r);
    else if (((c - N1) & 15) == 3) {
      /* all four accumulators in use */
      static const char *accops[] = { "accw", "accl", "accsadubl" }; int k; char nm[32]; snprintf (nm, sizeof nm, "acc4_%ld", c); gen_init (&ps, nm);
      for (k = 0; k < 4; k++) {
        int oi = gen_op_index (accops[vh_randn (&r, 3)]), q; const RefOp *op = &ref_ops[oi]; PInsn *in = gen_add_insn (&ps, oi, 1);
        in->dest[0] = gen_add_var (&ps, VK_ACC, op->dsz[0]);
        for (q = 0; q < 4; q++) if (op->ssz[q]) in->src[q] = gen_add_var (&ps, VK_SRC, op->ssz[q]);
      }
    }
    else { char nm[32]; snprintf (nm, sizeof nm, "rand_%ld", c); gen_init (&ps, nm); ok = gen_random (&ps, &r, ALLP, 1 + (int) vh_randn (&r, 14)); }
    snprintf (desc, sizeof desc, "c17 %s", ps.name); vh_progress (c, desc);
    if (!ok || !gen_valid (&ps)) continue;
    if (hash_only) c17_hash_one (&ps, c); else c17_one (&ps, c, &r);
    if ((c & 127) == 0) vh_flush ();
  }
}

/* ------------------------------------------------------------ c20 extension opcodes */
static unsigned long ext_emu_calls[64];
static int ext_rule_log[64];   /* which rule set emitted opcode k last */
#define EXT_EMU(N, EXPR) static void ext_emu_##N (OrcOpcodeExecutor *ex, int offset, int n) { int i; orc_int16 *d = ex->dest_ptrs[0]; const orc_int16 *a = ex->src_ptrs[0], *b = ex->src_ptrs[1]; ext_emu_calls[N]++; for (i = 0; i < n; i++) { int x = a[i], y = b[i]; (void) x; (void) y; d[i] = (orc_int16) (EXPR); } }
EXT_EMU (0, x + 2 * y) EXT_EMU (1, x - 2 * y) EXT_EMU (2, (x ^ y) + 1) EXT_EMU (3, (x & y) - 1) EXT_EMU (4, x + y + 7) EXT_EMU (5, x - y - 7) EXT_EMU (6, (x | y) ^ 0x55) EXT_EMU (7, 3 * x - y)
static OrcOpcodeEmulateNFunc ext_emus[8] = { ext_emu_0, ext_emu_1, ext_emu_2, ext_emu_3, ext_emu_4, ext_emu_5, ext_emu_6, ext_emu_7 };
static int ext_ref (int k, int x, int y)
{
  switch (k & 7) { case 0: return x + 2 * y; case 1: return x - 2 * y; case 2: return (x ^ y) + 1; case 3: return (x & y) - 1; case 4: return x + y + 7; case 5: return x - y - 7; case 6: return (x | y) ^ 0x55; default: return 3 * x - y; }
}

#include <orc/orcsse.h>
#include <orc/orcx86.h>
/* rule implementations for sse: emit code computing the same function for a subset (k=0,4: add-based) */
static void ext_rule_sse (OrcCompiler *p, void *user, OrcInstruction *insn)
{
  int tag = ORC_PTR_TO_INT (user);       /* opcode index * 16 + rule-set ordinal */
  int k = tag >> 4;
  int src0 = p->vars[insn->src_args[0]].alloc, src1 = p->vars[insn->src_args[1]].alloc, dest = p->vars[insn->dest_args[0]].alloc;
  int tmp = orc_compiler_get_temp_reg (p);
  ext_rule_log[k & 63] = tag & 15;
  /* k%8==0: x + 2y ; k%8==4: x + y + 7 (other opcodes have no native rule) */
  orc_sse_emit_movdqa (p, src1, tmp);
  if ((k & 7) == 0) orc_sse_emit_paddw (p, tmp, tmp);
  if (src0 != dest) orc_sse_emit_movdqa (p, src0, dest);
  orc_sse_emit_paddw (p, tmp, dest);
  if ((k & 7) == 4) { int c7 = orc_compiler_get_constant (p, 2, 7); orc_sse_emit_paddw (p, c7, dest); }
}

/* opcode shapes no built-in has: three vector sources; two destinations with two sources */
static unsigned long shape_emu_calls[2];
static void shape_emu_mac3 (OrcOpcodeExecutor *ex, int offset, int n) { int i; orc_int16 *d = ex->dest_ptrs[0]; const orc_int16 *a = ex->src_ptrs[0], *b = ex->src_ptrs[1], *c = ex->src_ptrs[2]; shape_emu_calls[0]++; for (i = 0; i < n; i++) d[i] = (orc_int16) (a[i] * b[i] + c[i]); }
static void shape_emu_sumdiff (OrcOpcodeExecutor *ex, int offset, int n) { int i; orc_int16 *d1 = ex->dest_ptrs[0], *d2 = ex->dest_ptrs[1]; const orc_int16 *a = ex->src_ptrs[0], *b = ex->src_ptrs[1]; shape_emu_calls[1]++; for (i = 0; i < n; i++) { d1[i] = (orc_int16) (a[i] + b[i]); d2[i] = (orc_int16) (a[i] - b[i]); } }
static void shape_rule_mac3 (OrcCompiler *p, void *user, OrcInstruction *insn)
{
  int s0 = p->vars[insn->src_args[0]].alloc, s1 = p->vars[insn->src_args[1]].alloc, s2 = p->vars[insn->src_args[2]].alloc, d = p->vars[insn->dest_args[0]].alloc;
  int tmp = orc_compiler_get_temp_reg (p);
  orc_sse_emit_movdqa (p, s0, tmp); orc_sse_emit_pmullw (p, s1, tmp); orc_sse_emit_paddw (p, s2, tmp); orc_sse_emit_movdqa (p, tmp, d);
}
static void shape_rule_sumdiff (OrcCompiler *p, void *user, OrcInstruction *insn)
{
  int s0 = p->vars[insn->src_args[0]].alloc, s1 = p->vars[insn->src_args[1]].alloc, d1 = p->vars[insn->dest_args[0]].alloc, d2 = p->vars[insn->dest_args[1]].alloc;
  int tmp = orc_compiler_get_temp_reg (p);
  orc_sse_emit_movdqa (p, s0, tmp); orc_sse_emit_psubw (p, s1, tmp);           /* tmp = a - b */
  if (d1 != s0) orc_sse_emit_movdqa (p, s0, d1);
  orc_sse_emit_paddw (p, s1, d1);                                                /* d1 = a + b */
  orc_sse_emit_movdqa (p, tmp, d2);
}

static void shape_emu_addlw (OrcOpcodeExecutor *ex, int offset, int n) { int i; orc_int32 *d = ex->dest_ptrs[0]; const orc_int32 *a = ex->src_ptrs[0]; const orc_int16 *b = ex->src_ptrs[1]; (void) offset; for (i = 0; i < n; i++) d[i] = a[i] + b[i]; }

static void c20_shapes (long scen, OrcTarget *sse)
{
  static OrcStaticOpcode shp[4]; OrcOpcodeSet *os; OrcRuleSet *rs; int which; char what[300];
  memset (shp, 0, sizeof shp);
  snprintf (shp[0].name, sizeof shp[0].name, "mac3w"); shp[0].dest_size[0] = 2; shp[0].src_size[0] = 2; shp[0].src_size[1] = 2; shp[0].src_size[2] = 2; shp[0].emulateN = shape_emu_mac3;
  /* sources of different sizes (as volscale's mulhslw would have); the narrow one is fed from a parameter and from a constant below */
  snprintf (shp[2].name, sizeof shp[2].name, "addlw"); shp[2].dest_size[0] = 4; shp[2].src_size[0] = 4; shp[2].src_size[1] = 2; shp[2].emulateN = shape_emu_addlw;
  snprintf (shp[1].name, sizeof shp[1].name, "sumdiffw"); shp[1].dest_size[0] = 2; shp[1].dest_size[1] = 2; shp[1].src_size[0] = 2; shp[1].src_size[1] = 2; shp[1].emulateN = shape_emu_sumdiff;
  if (!orc_opcode_register_static (shp, "shape")) { spec_viol ("C20", "c20", "register-failed", "orc_opcode_register_static returned 0 for the shape set", NULL, scen, NULL); return; }
  os = orc_opcode_set_get ("shape");
  rs = os ? orc_rule_set_new (os, sse, 0) : NULL;
  if (rs) { orc_rule_register (rs, "mac3w", shape_rule_mac3, NULL); orc_rule_register (rs, "sumdiffw", shape_rule_sumdiff, NULL); }
  for (which = 0; which < 2; which++) {
    OrcProgram *p = orc_program_new (); OrcCompileResult res; OrcExecutor *ex; static orc_int16 a[64], b[64], c[64], c2[64], d1[64], d2[64], n1[64], n2[64]; int i, n = 45, bad = 0;
    int v_d1 = orc_program_add_destination (p, 2, "d1"), v_d2 = orc_program_add_destination (p, 2, "d2"), v_s1 = orc_program_add_source (p, 2, "s1"), v_s2 = orc_program_add_source (p, 2, "s2"), v_s3 = orc_program_add_source (p, 2, "s3"), v_s4 = orc_program_add_source (p, 2, "s4");
    orc_program_set_name (p, which ? "shape_sumdiff" : "shape_mac3");
    if (which == 0) { orc_program_append_2 (p, "mac3w", 0, v_d1, v_s1, v_s2, v_s3); orc_program_append (p, "addw", v_d2, v_s3, v_s4); /* the third source stays live */ }
    else { orc_program_append_2 (p, "sumdiffw", 0, v_d1, v_d2, v_s1, v_s2); }
    res = orc_program_compile_for_target (p, sse);
    vh_count ("c20.shape_programs", 1);
    if (ORC_COMPILE_RESULT_IS_FATAL (res) || !p->orccode) {
      snprintf (what, sizeof what, "a program using the application opcode %s (%s) cannot be compiled or emulated: result %#x, %s", which ? "sumdiffw" : "mac3w", which ? "2 destinations, 2 sources" : "3 sources", res, orc_program_get_error (p) ? orc_program_get_error (p) : "");
      spec_viol ("C20", "c20", which ? "shape-2d2s-rejected" : "shape-3src-rejected", what, NULL, scen, NULL);
      orc_program_free (p); continue;
    }
    for (i = 0; i < 64; i++) { a[i] = (orc_int16) (i * 37 - 500); b[i] = (orc_int16) (i * 11 + 3); c[i] = (orc_int16) (i * 501 - 7000); c2[i] = (orc_int16) (9 * i); d1[i] = d2[i] = n1[i] = n2[i] = 0x5a5a; }
    ex = orc_executor_new (p); orc_executor_set_n (ex, n);
    orc_executor_set_array (ex, v_s1, a); orc_executor_set_array (ex, v_s2, b); orc_executor_set_array (ex, v_s3, c); orc_executor_set_array (ex, v_s4, c2);
    orc_executor_set_array (ex, v_d1, d1); orc_executor_set_array (ex, v_d2, d2);
    orc_executor_emulate (ex);
    for (i = 0; i < n && !bad; i++) {
      orc_int16 e1 = which ? (orc_int16) (a[i] + b[i]) : (orc_int16) (a[i] * b[i] + c[i]), e2 = which ? (orc_int16) (a[i] - b[i]) : (orc_int16) (c[i] + c2[i]);
      if (d1[i] != e1 || d2[i] != e2) { snprintf (what, sizeof what, "application opcode %s, element %d: emulated (%d,%d), expected (%d,%d)", which ? "sumdiffw" : "mac3w", i, d1[i], d2[i], e1, e2); spec_viol ("C20", "c20", which ? "shape-2d2s-emulation" : "shape-3src-emulation", what, NULL, scen, NULL); bad = 1; }
    }
    if (rs && ORC_COMPILE_RESULT_IS_SUCCESSFUL (res)) {
      orc_executor_set_array (ex, v_d1, n1); orc_executor_set_array (ex, v_d2, n2);
      orc_executor_run (ex);
      for (i = 0; i < n && !bad; i++) if (n1[i] != d1[i] || n2[i] != d2[i]) { snprintf (what, sizeof what, "application opcode %s, element %d: native (%d,%d), emulated (%d,%d)", which ? "sumdiffw" : "mac3w", i, n1[i], n2[i], d1[i], d2[i]); spec_viol ("C20", "c20", which ? "shape-2d2s-native" : "shape-3src-native", what, NULL, scen, NULL); bad = 1; }
      vh_count ("c20.shape_native_runs", 1);
    } else if (rs) { snprintf (what, sizeof what, "application opcode %s has an sse rule without flag requirements but the program did not compile natively (result %#x)", which ? "sumdiffw" : "mac3w", res); spec_viol ("C20", "c20", "shape-rule-not-used", what, NULL, scen, NULL); }
    orc_executor_free (ex); orc_program_free (p);
  }
  for (which = 0; which < 3; which++) {
    /* addlw d1, s1, <16-bit scalar>: the scalar is a parameter, a constant, or (control) an array */
    OrcProgram *p = orc_program_new (); OrcCompileResult res; OrcExecutor *ex; static orc_int32 a[64], d[64]; static orc_int16 b[64]; int i, n = 45, sc = -1234;
    int v_d1 = orc_program_add_destination (p, 4, "d1"), v_s1 = orc_program_add_source (p, 4, "s1"), v_x;
    v_x = which == 0 ? orc_program_add_parameter (p, 2, "p1") : which == 1 ? orc_program_add_constant (p, 2, sc, "c1") : orc_program_add_source (p, 2, "s2");
    orc_program_set_name (p, "shape_addlw");
    orc_program_append (p, "addlw", v_d1, v_s1, v_x);
    res = orc_program_compile_for_target (p, sse);
    vh_count ("c20.shape_programs", 1);
    if (ORC_COMPILE_RESULT_IS_FATAL (res) || !p->orccode) {
      snprintf (what, sizeof what, "a program using the application opcode addlw (sources of 4 and 2 bytes) cannot be compiled or emulated: result %#x, %s", res, orc_program_get_error (p) ? orc_program_get_error (p) : "");
      spec_viol ("C20", "c20", "shape-mixed-sizes-rejected", what, NULL, scen, NULL);
      orc_program_free (p); continue;
    }
    for (i = 0; i < 64; i++) { a[i] = i * 100003 - 70000; b[i] = (orc_int16) sc; d[i] = 0x5a5a5a5a; }
    ex = orc_executor_new (p); orc_executor_set_n (ex, n);
    orc_executor_set_array (ex, v_s1, a); orc_executor_set_array (ex, v_d1, d);
    if (which == 0) orc_executor_set_param (ex, v_x, sc); else if (which == 2) orc_executor_set_array (ex, v_x, b);
    orc_executor_emulate (ex);
    for (i = 0; i < n; i++) if (d[i] != a[i] + sc) {
      snprintf (what, sizeof what, "application opcode addlw with a 2-byte %s as its second source, element %d: emulated %d, expected %d", which == 0 ? "parameter" : which == 1 ? "constant" : "array", i, d[i], a[i] + sc);
      spec_viol ("C20", "c20", which == 0 ? "shape-mixed-sizes-param" : which == 1 ? "shape-mixed-sizes-const" : "shape-mixed-sizes-array", what, NULL, scen, NULL); break;
    }
    orc_executor_free (ex); orc_program_free (p);
  }
}

static void mode_c20 (void)
{
  /* One process = one registration scenario (registration is global and permanent): scenario = vh_args.limit */
  long scen = vh_args.limit; VhRng r; int nsets, si, k, total_ops = 0;
  static OrcStaticOpcode sets[4][42]; static char prefixes[4][8]; static int nrs_registered[4];
  static const char *base_names[] = { "addw2", "add", "xaddw", "addw_", "copyw9", "mulx", "q", "zz" };
  OrcTarget *sse = orc_target_get_by_name ("sse");
  uint64_t before_hash[64]; int nb = 0; ProgSpec keep[64];
  char what[300];
  vh_rng_init (&r, vh_args.seed, (uint64_t) scen);
  vh_progress (scen, "c20 scenario");
  /* snapshot: built-in programs before registration */
  for (k = 0; k < 64; k++) {
    OrcProgram *p; OrcCompileResult res; uint64_t h = 7; int i;
    char nm[24]; snprintf (nm, sizeof nm, "builtin_%d", k); gen_init (&keep[nb], nm);
    if (!gen_random (&keep[nb], &r, GP_INT | GP_ACC, 1 + (int) vh_randn (&r, 8)) || program_uses_special_or_big (&keep[nb])) continue;
    p = gen_build (&keep[nb]); res = orc_program_compile_for_target (p, sse);
    h = (h ^ (uint64_t) res) * 1099511628211ULL;
    if (ORC_COMPILE_RESULT_IS_SUCCESSFUL (res)) for (i = 0; i < p->orccode->code_size; i++) h = (h ^ p->orccode->code[i]) * 1099511628211ULL;
    if (!ORC_COMPILE_RESULT_IS_FATAL (res) && p->orccode) h ^= tiny_emulate (p, 21);
    before_hash[nb++] = h; orc_program_free (p);
  }
  nsets = 1 + (int) (scen % 4);
  for (si = 0; si < nsets; si++) {
    int nops = 1 + (int) vh_randn (&r, si == 0 ? 40 : 12);
    memset (sets[si], 0, sizeof sets[si]);
    for (k = 0; k < nops; k++) {
      OrcStaticOpcode *o = &sets[si][k]; int id = total_ops + k;
      snprintf (o->name, sizeof o->name, "%s%d", base_names[(id + scen) % 8], id);
      if (si == 0 && k == 0 && (scen & 4)) snprintf (o->name, sizeof o->name, "add");    /* a name that is a prefix of built-ins */
      if (si == 0 && k == 1 && (scen & 1)) snprintf (o->name, sizeof o->name, "addw");   /* a name a built-in already has: the built-in keeps it */
      o->dest_size[0] = 2; o->src_size[0] = 2; o->src_size[1] = 2; o->emulateN = ext_emus[id & 7];
    }
    /* set names: plain, extending a built-in set's name ("sys..."), and extending an earlier application set's name */
    if ((scen & 8) && si == 0) snprintf (prefixes[si], sizeof prefixes[si], "sysx");
    else if ((scen & 16) && si > 0) snprintf (prefixes[si], sizeof prefixes[si], "%.4s%c", prefixes[0], 'a' + si);
    else snprintf (prefixes[si], sizeof prefixes[si], "ext%d", si);
    if (!orc_opcode_register_static (sets[si], prefixes[si])) { spec_viol ("C20", "c20", "register-failed", "orc_opcode_register_static returned 0", NULL, scen, NULL); }
    vh_count ("c20.sets_registered", 1); vh_count ("c20.opcodes_registered", (uint64_t) nops);
    /* rule sets for sse: first one without flag requirement, later ones requiring SSSE3 / a flag the default flags lack */
    {
      OrcOpcodeSet *os = orc_opcode_set_get (prefixes[si]); int nrs = 1 + (int) vh_randn (&r, 3), ri;
      if (!os) { spec_viol ("C20", "c20", "set-not-found", "orc_opcode_set_get does not find the registered set", NULL, scen, NULL); continue; }
      if (os->opcodes != sets[si]) { snprintf (what, sizeof what, "orc_opcode_set_get(\"%s\") returns another set (its first opcode is %s)", prefixes[si], os->opcodes ? os->opcodes[0].name : "?"); spec_viol ("C20", "c20", "set-lookup-wrong", what, NULL, scen, NULL); }
      for (ri = 0; ri < nrs; ri++) {
        /* SSE5 is never in the default flags; a set that needs a satisfied and an unsatisfied flag must not apply either */
        unsigned req = ri == 0 ? 0 : ri == 1 ? ORC_TARGET_SSE_SSSE3 : (scen & 2) ? (ORC_TARGET_SSE_SSE2 | ORC_TARGET_SSE_SSE5) : ORC_TARGET_SSE_SSE5;
        OrcRuleSet *rs = orc_rule_set_new (os, sse, req);
        if (!rs) { vh_count ("c20.rule_set_capacity_reached", 1); break; }
        for (k = 0; k < nops; k++) { int id = total_ops + k; if ((id & 7) == 0 || (id & 7) == 4) orc_rule_register (rs, sets[si][k].name, ext_rule_sse, (void *) (intptr_t) ((id << 4) | ri)); }
        vh_count ("c20.rule_sets_registered", 1); nrs_registered[si] = ri + 1;
      }
    }
    total_ops += nops;
  }
  /* programs using extension opcodes */
  {
    int id = 0, runs = 0;
    for (si = 0; si < nsets; si++) for (k = 0; sets[si][k].name[0]; k++, id++) {
      OrcProgram *p = orc_program_new (); OrcCompileResult res; OrcExecutor *ex; static orc_int16 a[64], b[64], d[64], dn[64]; int i, n = 37;
      int dd = orc_program_add_destination (p, 2, "d1"), s1 = orc_program_add_source (p, 2, "s1"), s2 = orc_program_add_source (p, 2, "s2"), t1 = orc_program_add_temporary (p, 2, "t1");
      unsigned long calls0 = ext_emu_calls[id & 7];
      orc_program_set_name (p, "extprog");
      orc_program_append (p, "addw", t1, s1, s2);          /* built-in mixed in */
      orc_program_append (p, sets[si][k].name, dd, t1, s2);
      if (!strcmp (sets[si][k].name, "addw")) {
        /* shadowing attempt: programs (ours below and the built-in ones compared before/after) must keep getting the built-in addw */
        if (orc_opcode_find_by_name ("addw") == &sets[si][k]) spec_viol ("C20", "c20", "builtin-shadowed", "orc_opcode_find_by_name(\"addw\") returns the application's opcode of the same name instead of the built-in one", NULL, scen, NULL);
        orc_program_free (p); continue;
      }
      if (orc_opcode_find_by_name (sets[si][k].name) != &sets[si][k] && strcmp (sets[si][k].name, "add")) {
        snprintf (what, sizeof what, "orc_opcode_find_by_name(%s) does not return the registered opcode", sets[si][k].name);
        spec_viol ("C20", "c20", "lookup", what, NULL, scen, NULL);
      }
      ext_rule_log[id & 63] = -1;
      res = orc_program_compile_for_target (p, sse);
      for (i = 0; i < 64; i++) { a[i] = (orc_int16) (i * 257 - 3000); b[i] = (orc_int16) (i * 91 + 11); d[i] = dn[i] = 0x5a5a; }
      if (!ORC_COMPILE_RESULT_IS_FATAL (res) && p->orccode && p->insns[1].opcode == &sets[si][k]) {
        ex = orc_executor_new (p); orc_executor_set_n (ex, n); orc_executor_set_array (ex, dd, d); orc_executor_set_array (ex, s1, a); orc_executor_set_array (ex, s2, b);
        orc_executor_emulate (ex);
        if (ext_emu_calls[id & 7] == calls0) { snprintf (what, sizeof what, "emulating a program with extension opcode %s did not call the application's emulation function", sets[si][k].name); spec_viol ("C20", "c20", "emulation-not-called", what, NULL, scen, NULL); }
        for (i = 0; i < n; i++) if (d[i] != (orc_int16) ext_ref (id, (orc_int16) (a[i] + b[i]), b[i])) { snprintf (what, sizeof what, "extension opcode %s element %d: emulated %d, expected %d", sets[si][k].name, i, d[i], (orc_int16) ext_ref (id, (orc_int16) (a[i] + b[i]), b[i])); spec_viol ("C20", "c20", "emulation-value", what, NULL, scen, NULL); break; }
        if (ORC_COMPILE_RESULT_IS_SUCCESSFUL (res)) {
          int has_rule = (id & 7) == 0 || (id & 7) == 4;
          if (!has_rule) { snprintf (what, sizeof what, "extension opcode %s has no rule but compiled natively", sets[si][k].name); spec_viol ("C20", "c20", "compiled-without-rule", what, NULL, scen, NULL); }
          orc_executor_set_array (ex, dd, dn); orc_executor_run (ex);
          for (i = 0; i < n; i++) if (dn[i] != d[i]) { snprintf (what, sizeof what, "extension opcode %s element %d: native %d, emulated %d", sets[si][k].name, i, dn[i], d[i]); spec_viol ("C20", "c20", "native-value", what, NULL, scen, NULL); break; }
          /* precedence: latest rule set whose flags are satisfied (default flags: SSSE3 yes on this host, SSE5 no) */
          vh_countf (1, "c20.rule_used.%d", ext_rule_log[id & 63]);
          { int want = nrs_registered[si] >= 2 ? 1 : 0;   /* the later set whose flags (SSSE3) are satisfied wins; the SSE5 one never applies */
            if (ext_rule_log[id & 63] != want && ext_rule_log[id & 63] != 2) { snprintf (what, sizeof what, "extension opcode %s: rule set %d emitted the code, rule set %d (registered later, flags satisfied) should take precedence", sets[si][k].name, ext_rule_log[id & 63], want); spec_viol ("C20", "c20", "precedence", what, NULL, scen, NULL); } }
          if (ext_rule_log[id & 63] == 2) { spec_viol ("C20", "c20", "rule-with-unsatisfied-flags-used", "a rule set requiring a flag that is not in the target flags emitted code", NULL, scen, NULL); }
          vh_count ("c20.native_runs", 1);
        } else if ((id & 7) == 0 || (id & 7) == 4) {
          vh_count ("c20.rule_opcode_not_native", 1);
          if (nrs_registered[si] >= 1) { snprintf (what, sizeof what, "extension opcode %s has a registered sse rule whose flags are satisfied, but the program did not compile natively (result %#x)", sets[si][k].name, res); spec_viol ("C20", "c20", "rule-not-used", what, NULL, scen, NULL); }
        }
        orc_executor_free (ex); runs++;
      } else if (strcmp (sets[si][k].name, "add")) vh_count ("c20.ext_program_fatal", 1);
      orc_program_free (p);
    }
    vh_count ("c20.ext_programs", (uint64_t) runs);
  }
  c20_shapes (scen, sse);
  /* built-ins unchanged */
  for (k = 0; k < nb; k++) {
    OrcProgram *p = gen_build (&keep[k]); OrcCompileResult res = orc_program_compile_for_target (p, sse); uint64_t h = 7; int i;
    h = (h ^ (uint64_t) res) * 1099511628211ULL;
    if (ORC_COMPILE_RESULT_IS_SUCCESSFUL (res)) for (i = 0; i < p->orccode->code_size; i++) h = (h ^ p->orccode->code[i]) * 1099511628211ULL;
    if (!ORC_COMPILE_RESULT_IS_FATAL (res) && p->orccode) h ^= tiny_emulate (p, 21);
    if (h != before_hash[k]) spec_viol ("C20", "c20", "builtin-changed", "a program of built-in opcodes compiles or computes differently after the registration", &keep[k], scen, NULL);
    vh_count ("c20.builtin_compared", 1);
    orc_program_free (p);
  }
}

/* ------------------------------------------------------------ main */
int main (int argc, char **argv)
{
  vh_parse_args (argc, argv);
  orc_init ();
  find_targets ();
  enumerate_single (ALLP);
  enumerate_pairs (GP_INT | GP_FLOAT | GP_ACC);
  if (!strcmp (vh_args.mode, "c05")) mode_c05 ();
  else if (!strcmp (vh_args.mode, "c13")) mode_c13 ();
  else if (!strcmp (vh_args.mode, "c14")) mode_c14 ();
  else if (!strcmp (vh_args.mode, "c15")) mode_c15 ();
  else if (!strcmp (vh_args.mode, "c16")) mode_c16 ();
  else if (!strcmp (vh_args.mode, "c17")) mode_c17 (0);
  else if (!strcmp (vh_args.mode, "c17hash")) mode_c17 (1);
  else if (!strcmp (vh_args.mode, "c20")) mode_c20 ();
  else { fprintf (stderr, "unknown mode\n"); return 2; }
  vh_done ();
  return 0;
}
