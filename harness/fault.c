/* fault.c - C06: fallback paths under injected OS failures.
 * Linked with -Wl,--wrap=mkstemp,--wrap=ftruncate,--wrap=mmap so that the calls
 * liborc makes while acquiring executable memory can be failed by index.
 *
 * env FAULT_PLAN: "" (record only) | "i,j,..." (1-based global call indices to fail) |
 *                 "all-mkstemp" | "all-filemmap" | "all-anonmmap" | "all" |
 *                 "after-init" | "after-init-filemmap" (the same, but only once orc_init() has returned)
 * args: variant bits (decimal): bit0 backup function registered, bit1 code-only executor (take_code),
 *       bits2-3 program kind (0 rule on target, 1 opcode without native rule, 2 register exhaustion,
 *                3 recompile history: compiled natively, recompiled for a target without a rule, chunk reused by another program),
 *       bit4 hold: programs and their code stay alive until the end (code memory has to grow by new regions)
 *       bit5 2-D: the program is two-dimensional (3 rows, stride 128 bytes)
 *       bit6 general-register exhaustion: 4 destinations + 8 sources, two of them read by resampling loads (d1 = s1 + s2 as in kind 0)
 *       bit7 the program-attached executor is created before the program is compiled (it must still follow the program to whatever the compile produced)
 *       reps (number of compile/run repetitions)
 * Prints one JSON line.
 */
#define _GNU_SOURCE
#include <orc/orc.h>
#include <stdio.h>
#include <stdlib.h>
#include <string.h>
#include <errno.h>
#include <dirent.h>
#include <sys/mman.h>
#include <unistd.h>

int __real_mkstemp (char *t);
int __real_ftruncate (int fd, off_t len);
void *__real_mmap (void *a, size_t l, int p, int f, int fd, off_t o);

static int ncalls, ninjected;
static int plan_idx[64], nplan; static int plan_all_mkstemp, plan_all_filemmap, plan_all_anon, plan_all, plan_after_init, init_done;
static char calllog[4096]; static char injlog[1024];

static int should_fail (const char *kind, int is_file_mmap, int is_anon)
{
  int i, f = 0;
  ncalls++;
  if (strlen (calllog) < sizeof calllog - 16) { strcat (calllog, kind); strcat (calllog, " "); }
  for (i = 0; i < nplan; i++) if (plan_idx[i] == ncalls) f = 1;
  if (!plan_after_init || init_done) {
    if (plan_all) f = 1;
    if (plan_all_mkstemp && !strcmp (kind, "mkstemp")) f = 1;
    if (plan_all_filemmap && is_file_mmap) f = 1;
    if (plan_all_anon && is_anon) f = 1;
  }
  if (f) { char t[32]; ninjected++; snprintf (t, sizeof t, "%d:%s ", ncalls, kind); if (strlen (injlog) < sizeof injlog - 40) strcat (injlog, t); }
  return f;
}

/* With ORC_CODE=debug the library keeps its code files instead of unlinking them, and a failure plan pushes it down its list of
 * directories to /tmp, which no environment variable redirects: the files this process created are removed when it exits. */
static char *kept_files[4096]; static int n_kept_files;
static void remove_kept_files (void) { while (n_kept_files) { unlink (kept_files[--n_kept_files]); } }
int __wrap_mkstemp (char *t)
{
  int fd;
  if (should_fail ("mkstemp", 0, 0)) { errno = EMFILE; return -1; }
  fd = __real_mkstemp (t);
  if (fd >= 0 && n_kept_files < 4096) {
    const char *oc = getenv ("ORC_CODE");
    if (oc && strstr (oc, "debug")) { if (!n_kept_files) atexit (remove_kept_files); kept_files[n_kept_files++] = strdup (t); }
  }
  return fd;
}
int __wrap_ftruncate (int fd, off_t len) { if (should_fail ("ftruncate", 0, 0)) { errno = ENOSPC; return -1; } return __real_ftruncate (fd, len); }
void *__wrap_mmap (void *a, size_t l, int p, int f, int fd, off_t o)
{
  int anon = (f & MAP_ANONYMOUS) != 0;
  if (should_fail (anon ? "mmap-anon" : (p & PROT_EXEC) ? "mmap-exec" : "mmap-write", !anon, anon)) { errno = ENOMEM; return MAP_FAILED; }
  return __real_mmap (a, l, p, f, fd, o);
}

static int count_fds (void)
{
  DIR *d = opendir ("/proc/self/fd"); int n = 0; struct dirent *e;
  if (!d) return -1;
  while ((e = readdir (d))) if (e->d_name[0] != '.') n++;
  closedir (d);
  return n - 1;
}

/* C09 clause: a compiled function that is handed out lies inside a mapping the process may execute (and its write alias inside a writable one) */
static int addr_has_perm (const void *addr, size_t len, char perm)
{
  FILE *f = fopen ("/proc/self/maps", "r"); char line[512]; int ok = 0;
  if (!f) return -1;
  while (fgets (line, sizeof line, f)) {
    unsigned long lo, hi; char pr[8];
    if (sscanf (line, "%lx-%lx %7s", &lo, &hi, pr) != 3) continue;
    if ((unsigned long) addr >= lo && (unsigned long) addr < hi && len <= hi - (unsigned long) addr && strchr (pr, perm)) { ok = 1; break; }
  }
  fclose (f);
  return ok;
}

static int backup_calls;
static void backup_fn (OrcExecutor *ex)
{
  /* a correct backup: the program's semantics in C (d1 = s1 + s2 with wrap, per kind below it is always addw on the first two sources) */
  backup_calls++;
  (void) ex;
}

static OrcProgram *make_gpx_program (void)
{
  /* more array pointers (12) plus two resampling offsets than there are general registers: must fall back, not miscompile */
  OrcProgram *p = orc_program_new (); int d[4], s[8], t1, t2, c0, c1;
  orc_program_set_name (p, "faultgpx");
  d[0] = orc_program_add_destination (p, 2, "d1"); s[0] = orc_program_add_source (p, 2, "s1"); s[1] = orc_program_add_source (p, 2, "s2");
  d[1] = orc_program_add_destination (p, 2, "d2"); d[2] = orc_program_add_destination (p, 2, "d3"); d[3] = orc_program_add_destination (p, 4, "d4");
  s[2] = orc_program_add_source (p, 2, "s3"); s[3] = orc_program_add_source (p, 2, "s4"); s[4] = orc_program_add_source (p, 2, "s5"); s[5] = orc_program_add_source (p, 2, "s6");
  s[6] = orc_program_add_source (p, 4, "s7"); s[7] = orc_program_add_source (p, 4, "s8");
  t1 = orc_program_add_temporary (p, 4, "t1"); t2 = orc_program_add_temporary (p, 4, "t2");
  c0 = orc_program_add_constant (p, 4, 0, "c0"); c1 = orc_program_add_constant (p, 4, 65536, "c1");
  orc_program_append (p, "addw", d[0], s[0], s[1]);
  orc_program_append (p, "xorw", d[1], s[2], s[3]);
  orc_program_append (p, "subw", d[2], s[4], s[5]);
  orc_program_append_2 (p, "ldresnearl", 0, t1, s[6], c0, c1);
  orc_program_append_2 (p, "ldresnearl", 0, t2, s[7], c0, c1);
  orc_program_append (p, "addl", d[3], t1, t2);
  return p;
}

static OrcProgram *make_program (int kind)
{
  OrcProgram *p = orc_program_new ();
  int d = orc_program_add_destination (p, 2, "d1"), s1 = orc_program_add_source (p, 2, "s1"), s2 = orc_program_add_source (p, 2, "s2");
  orc_program_set_name (p, "faultprog");
  if (kind == 3) {
    /* 8-byte add: sse/avx have a rule, mmx has none */
    orc_program_free (p);
    p = orc_program_new ();
    d = orc_program_add_destination (p, 8, "d1"); s1 = orc_program_add_source (p, 8, "s1"); s2 = orc_program_add_source (p, 8, "s2");
    orc_program_set_name (p, "faultprog3");
    orc_program_append (p, "addq", d, s1, s2);
    return p;
  }
  if (kind == 0) orc_program_append (p, "addw", d, s1, s2);
  else if (kind == 1) {
    /* convussql has no native rule on any x86 target */
    int t8 = orc_program_add_temporary (p, 8, "t8"), t4 = orc_program_add_temporary (p, 4, "t4");
    orc_program_append (p, "mergewl", t4, s1, s2);
    orc_program_append_ds (p, "convulq", t8, t4);
    orc_program_append_ds (p, "convussql", t4, t8);
    orc_program_append_ds (p, "select0lw", d, t4);
  } else {
    /* many simultaneously live temporaries: more than the vector registers */
    int t[16], i;
    for (i = 0; i < 16; i++) { char nm[8]; snprintf (nm, sizeof nm, "t%d", i); t[i] = orc_program_add_temporary (p, 2, nm); }
    orc_program_append_ds (p, "copyw", t[14], s1);
    orc_program_append_ds (p, "copyw", t[15], s2);
    for (i = 0; i < 14; i++) orc_program_append (p, i & 1 ? "addw" : "subw", t[i], t[14], t[15]);
    for (i = 0; i < 8; i++) { char nm[8]; int c; snprintf (nm, sizeof nm, "c%d", i); c = orc_program_add_constant (p, 2, 1000 + 77 * i, nm); orc_program_append (p, "addw", t[i], t[i], c); }
    for (i = 1; i < 14; i++) orc_program_append (p, "xorw", t[0], t[0], t[i]);
    for (i = 1; i < 14; i++) orc_program_append (p, "addw", t[0], t[0], t[i]);
    orc_program_append_ds (p, "copyw", d, t[0]);
  }
  return p;
}

#define MAXHELD 6000
int main (int argc, char **argv)
{
  int variant = argc > 1 ? atoi (argv[1]) : 0, reps = argc > 2 ? atoi (argv[2]) : 1, r;
  int with_backup = variant & 1, code_only = (variant >> 1) & 1, kind = (variant >> 2) & 3, hold = (variant >> 4) & 1, twod = (variant >> 5) & 1, gpx = (variant >> 6) & 1, early_ex = (variant >> 7) & 1, nheld = 0, held_reruns = 0;
  static OrcProgram *held_p[MAXHELD]; static OrcCode *held_c[MAXHELD];
  const char *plan = getenv ("FAULT_PLAN");
  int calls_after_init, fds0 = -1, fds_early = -1, fds_end = -1, mismatches = 0, native_runs = 0, backup_bad = 0, emu_runs = 0, no_orccode = 0;
  int results[3] = { 0, 0, 0 }, exec_checked = 0, exec_not_executable = 0, write_not_writable = 0;
  if (plan && *plan) {
    if (!strcmp (plan, "all")) plan_all = 1; else if (!strcmp (plan, "all-mkstemp")) plan_all_mkstemp = 1;
    else if (!strcmp (plan, "all-filemmap")) plan_all_filemmap = 1; else if (!strcmp (plan, "all-anonmmap")) plan_all_anon = 1;
    else if (!strcmp (plan, "after-init")) plan_all = plan_after_init = 1; else if (!strcmp (plan, "after-init-filemmap")) plan_all_filemmap = plan_after_init = 1;
    else { const char *q = plan; while (*q && nplan < 64) { plan_idx[nplan++] = (int) strtol (q, (char **) &q, 10); if (*q == ',') q++; } }
  }
  orc_init ();
  init_done = 1;
  calls_after_init = ncalls;
  fds0 = count_fds ();
  for (r = 0; r < reps; r++) {
    OrcProgram *p = gpx ? make_gpx_program () : make_program (kind), *q = NULL; OrcCompileResult res; OrcExecutor *ex; OrcCode *code = NULL;
    static short xs[8][256] __attribute__ ((aligned (16))), xdn[4][256] __attribute__ ((aligned (16))), xde[4][256] __attribute__ ((aligned (16)));
    static short a[256] __attribute__ ((aligned (16))), b[256] __attribute__ ((aligned (16))), dn[256] __attribute__ ((aligned (16))), de[256] __attribute__ ((aligned (16)));
    int i, before, n = kind == 3 ? 12 : 50;
    if (twod) orc_program_set_2d (p);
    if (with_backup) orc_program_set_backup_function (p, backup_fn);
    ex = early_ex ? orc_executor_new (p) : NULL;   /* bit7: the executor is bound to the program before the program is compiled */
    res = orc_program_compile (p);
    if (kind == 3) {
      /* history: the program had native code; it is compiled again for a target that has no rule for it; the chunk it
       * occupied is then reused by another program */
      OrcTarget *mmx = orc_target_get_by_name ("mmx");
      if (mmx) res = orc_program_compile_for_target (p, mmx);
      q = orc_program_new ();
      { int qd = orc_program_add_destination (q, 8, "d1"), qs1 = orc_program_add_source (q, 8, "s1"), qs2 = orc_program_add_source (q, 8, "s2");
        orc_program_set_name (q, "faultprog3q"); orc_program_append (q, "subq", qd, qs1, qs2); }
      orc_program_compile (q);
    }
    results[ORC_COMPILE_RESULT_IS_SUCCESSFUL (res) ? 0 : ORC_COMPILE_RESULT_IS_FATAL (res) ? 2 : 1]++;
    if (ORC_COMPILE_RESULT_IS_FATAL (res) || !p->orccode) { no_orccode++; if (ex) orc_executor_free (ex); orc_program_free (p); if (q) orc_program_free (q); continue; }
    if (ORC_COMPILE_RESULT_IS_SUCCESSFUL (res) && p->orccode->exec && p->orccode->code_size > 0 && r < 64) {
      /* before anything is run: where does the function that will be called live? */
      exec_checked++;
      if (addr_has_perm ((void *) p->orccode->exec, p->orccode->code_size, 'x') == 0) exec_not_executable++;
      if (p->orccode->code && addr_has_perm (p->orccode->code, p->orccode->code_size, 'w') == 0 && addr_has_perm (p->orccode->code, p->orccode->code_size, 'x') == 0) write_not_writable++;
      if (exec_not_executable) {
        /* running it would only crash: report and stop here */
        printf ("{\"variant\":%d,\"reps\":%d,\"calls\":%d,\"calls_after_init\":%d,\"injected\":%d,\"injlog\":\"%s\",\"calllog\":\"\",\"ok\":0,\"nonfatal\":0,\"fatal\":0,\"mismatches\":0,\"native_runs\":0,\"emulated_runs\":0,\"backup_calls\":0,\"backup_bad\":0,\"no_orccode\":0,\"held\":0,\"held_reruns\":0,\"fds0\":-1,\"fds_early\":-1,\"fds_end\":-1,\"exec_checked\":%d,\"exec_not_executable\":%d,\"write_not_writable\":%d,\"exec\":\"%p\"}\n",
            variant, reps, ncalls, calls_after_init, ninjected, injlog, exec_checked, exec_not_executable, write_not_writable, (void *) p->orccode->exec);
        fflush (stdout);
        _exit (0);
      }
    }
    for (i = 0; i < 256; i++) { a[i] = (short) (i * 517 - 9000 + r); b[i] = (short) (i * 33 + 5); dn[i] = de[i] = 0x1111; }
    if (!ex) ex = orc_executor_new (p);
    orc_executor_set_n (ex, n); orc_executor_set_array (ex, ORC_VAR_S1, a); orc_executor_set_array (ex, ORC_VAR_S2, b);
    if (twod) { orc_executor_set_m (ex, 3); orc_executor_set_stride (ex, ORC_VAR_S1, 128); orc_executor_set_stride (ex, ORC_VAR_S2, 128); orc_executor_set_stride (ex, ORC_VAR_D1, 128); }
    orc_executor_set_array (ex, ORC_VAR_D1, de);
    if (gpx) { int k, j; for (k = 0; k < 8; k++) for (j = 0; j < 256; j++) xs[k][j] = (short) (j * 29 + k * 1000 + r);
      memset (xdn, 0x33, sizeof xdn); memset (xde, 0x33, sizeof xde);
      for (k = 2; k < 8; k++) orc_executor_set_array (ex, ORC_VAR_S1 + k, xs[k]);
      for (k = 1; k < 4; k++) orc_executor_set_array (ex, ORC_VAR_D1 + k, xde[k]); }
    orc_executor_emulate (ex);
    if (twod) {
      /* the emulation used as the oracle must itself have covered the three rows (d = a + b for kinds 0 and 3 is easy to predict) */
      if (kind == 0) for (i = 0; i < 3; i++) if (de[i * 64 + 7] != (short) (a[i * 64 + 7] + b[i * 64 + 7])) { mismatches++; break; }
    }
    orc_executor_set_array (ex, ORC_VAR_D1, dn);
    if (gpx) { int k; for (k = 1; k < 4; k++) orc_executor_set_array (ex, ORC_VAR_D1 + k, xdn[k]); }
    before = backup_calls;
    if (code_only) {
      OrcExecutor ex2;
      code = orc_program_take_code (p);
      memset (&ex2, 0, sizeof ex2); ex2.n = n; ex2.arrays[ORC_VAR_A2] = code; ex2.arrays[ORC_VAR_D1] = dn; ex2.arrays[ORC_VAR_S1] = a; ex2.arrays[ORC_VAR_S2] = b;
      if (gpx) { int k; for (k = 2; k < 8; k++) ex2.arrays[ORC_VAR_S1 + k] = xs[k]; for (k = 1; k < 4; k++) ex2.arrays[ORC_VAR_D1 + k] = xdn[k]; }
      if (twod) { ex2.params[ORC_VAR_A1] = 3; ex2.params[ORC_VAR_D1] = ex2.params[ORC_VAR_S1] = ex2.params[ORC_VAR_S2] = 128; }
      orc_executor_run (&ex2);
    } else orc_executor_run (ex);
    if (backup_calls != before) {
      /* the backup function was used for this run: exactly once, and then results are the backup's business */
      if (backup_calls != before + 1) backup_bad++;
      if (!with_backup) backup_bad++;
    } else {
      if (memcmp (dn, de, sizeof dn)) mismatches++;
      else if (gpx && memcmp (xdn, xde, sizeof xdn)) mismatches++;
      if (ORC_COMPILE_RESULT_IS_SUCCESSFUL (res)) native_runs++; else emu_runs++;
    }
    orc_executor_free (ex);
    if (q) orc_program_free (q);
    if (hold && nheld < MAXHELD) { held_p[nheld] = p; held_c[nheld] = code; nheld++; }
    else { if (code) orc_code_free (code); orc_program_free (p); }
    if (r == 19) fds_early = count_fds ();
  }
  /* held programs: still compute the right thing after all the later compiles, then released */
  for (r = 0; r < nheld; r++) {
    if (r % 37 == 0 && !held_c[r] && held_p[r]->orccode && !gpx) {
      static short a[64] __attribute__ ((aligned (16))), b[64] __attribute__ ((aligned (16))), dn[64] __attribute__ ((aligned (16))), de[64] __attribute__ ((aligned (16)));
      OrcExecutor *ex = orc_executor_new (held_p[r]); int i, before = backup_calls;
      for (i = 0; i < 64; i++) { a[i] = (short) (i * 51 + r); b[i] = (short) (i * 3 + 5); dn[i] = de[i] = 0x2222; }
      orc_executor_set_n (ex, kind == 3 ? 12 : 50); orc_executor_set_array (ex, ORC_VAR_S1, a); orc_executor_set_array (ex, ORC_VAR_S2, b);
      orc_executor_set_array (ex, ORC_VAR_D1, de); orc_executor_emulate (ex);
      orc_executor_set_array (ex, ORC_VAR_D1, dn); orc_executor_run (ex);
      if (backup_calls == before && memcmp (dn, de, sizeof dn)) mismatches++;
      held_reruns++;
      orc_executor_free (ex);
    }
    if (held_c[r]) orc_code_free (held_c[r]);
    orc_program_free (held_p[r]);
  }
  fds_end = count_fds ();
  printf ("{\"variant\":%d,\"reps\":%d,\"calls\":%d,\"calls_after_init\":%d,\"injected\":%d,\"injlog\":\"%s\",\"calllog\":\"%.600s\",\"ok\":%d,\"nonfatal\":%d,\"fatal\":%d,"
      "\"mismatches\":%d,\"native_runs\":%d,\"emulated_runs\":%d,\"backup_calls\":%d,\"backup_bad\":%d,\"no_orccode\":%d,\"held\":%d,\"held_reruns\":%d,\"fds0\":%d,\"fds_early\":%d,\"fds_end\":%d,\"exec_checked\":%d,\"exec_not_executable\":%d,\"write_not_writable\":%d}\n",
      variant, reps, ncalls, calls_after_init, ninjected, injlog, calllog, results[0], results[1], results[2], mismatches, native_runs, emu_runs, backup_calls, backup_bad, no_orccode, nheld, held_reruns,
      fds0, fds_early, fds_end, exec_checked, exec_not_executable, write_not_writable);
  return 0;
}
