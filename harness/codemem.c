/* codemem.c - C09: consistency of code memory over histories of allocations,
 * hand-offs and frees.  Uses the orc_verif_codemem_walk hook to observe the
 * allocator's regions/chunks under its own lock and a shadow model of the live
 * set kept by the harness.
 *   --mode enum  : every sequence of alloc(size)/free(k-th live) up to depth d (exhaustive)
 *   --mode hist  : long random histories of real compile / take_code / run / free
 */
#define _GNU_SOURCE
#include <orc/orc.h>
#include "vh.h"
#include "ref.h"
#include "gen.h"

void orc_verif_codemem_walk (void (*cb) (void *user, int region, const void *write_ptr, const void *exec_ptr, int region_size,
      int offset, int size, int used, int prev_ok), void *user);
extern int _orc_codemem_alignment;

#define MAXLIVE 64
typedef struct { OrcCode *code; int size; uint64_t hash; uint64_t out; OrcProgram *prog; ProgSpec *ps; } Live;
static Live live[MAXLIVE]; static int nlive;

typedef struct {
  int nregions, nchunks, bad, maxfree;
  char why[200];
  int last_region, expect_off, last_used;
  /* used chunks */
  struct { int region; const uint8_t *wbase, *xbase; int off, size; } used[512]; int nused;
} Walk;

static void walk_cb (void *user, int region, const void *wp, const void *xp, int rsize, int off, int size, int used, int prev_ok)
{
  Walk *w = user;
  if (region != w->last_region) {
    if (w->last_region >= 0 && w->expect_off != 65536 && !w->bad) { w->bad = 1; snprintf (w->why, sizeof w->why, "chunks of region %d end at %d, region size differs", w->last_region, w->expect_off); }
    w->last_region = region; w->expect_off = 0; w->last_used = 1; w->nregions = region + 1;
  }
  w->nchunks++;
  if (!prev_ok && !w->bad) { w->bad = 1; snprintf (w->why, sizeof w->why, "chunk at offset %d of region %d has an inconsistent prev/region link", off, region); }
  if (off != w->expect_off && !w->bad) { w->bad = 1; snprintf (w->why, sizeof w->why, "chunk list of region %d does not tile: chunk at %d, expected %d", region, off, w->expect_off); }
  if (size <= 0 && !w->bad) { w->bad = 1; snprintf (w->why, sizeof w->why, "chunk at %d of region %d has size %d", off, region, size); }
  if (!used && !w->last_used && !w->bad) { w->bad = 1; snprintf (w->why, sizeof w->why, "two adjacent free chunks in region %d at offset %d (not coalesced)", region, off); }
  if (off + size > rsize && !w->bad) { w->bad = 1; snprintf (w->why, sizeof w->why, "chunk [%d,%d) exceeds region size %d", off, off + size, rsize); }
  w->expect_off = off + size; w->last_used = used;
  if (!used && size > w->maxfree) w->maxfree = size;
  if (used && w->nused < 512) { w->used[w->nused].region = region; w->used[w->nused].wbase = wp; w->used[w->nused].xbase = xp; w->used[w->nused].off = off; w->used[w->nused].size = size; w->nused++; }
  (void) rsize;
}

static void do_walk (Walk *w)
{
  memset (w, 0, sizeof *w); w->last_region = -1;
  orc_verif_codemem_walk (walk_cb, w);
  if (w->last_region >= 0 && w->expect_off != 65536 && !w->bad) { w->bad = 1; snprintf (w->why, sizeof w->why, "chunks of region %d end at %d", w->last_region, w->expect_off); }
}

static void viol (const char *sigtail, const char *what, const char *history, long caseidx)
{
  char sig[200]; VhBuf b = { 0 };
  snprintf (sig, sizeof sig, "C09|%s", sigtail);
  vh_buf_printf (&b, "{\"harness\":\"codemem\",\"mode\":\"%s\",\"seed\":%llu,\"case\":%ld,\"tier\":\"%s\",\"history\":", vh_args.mode, (unsigned long long) vh_args.seed, caseidx, vh_args.thorough ? "thorough" : "quick");
  vh_buf_jstr (&b, history ? history : ""); vh_buf_printf (&b, "}");
  vh_violation ("C09", sig, what, b.p); free (b.p);
}

/* invariants after a step; returns 1 if violated */
static int check_state (const char *history, long caseidx, int regions_before, int maxfree_before, int just_allocated_aligned)
{
  Walk w; int i, j; char what[300];
  do_walk (&w);
  vh_count ("walks", 1);
  if (w.bad) { viol ("structure", w.why, history, caseidx); return 1; }
  /* used chunks == live set */
  if (w.nused != nlive) { snprintf (what, sizeof what, "%d used chunks, %d live code objects", w.nused, nlive); viol ("used-vs-live", what, history, caseidx); return 1; }
  for (i = 0; i < nlive; i++) {
    int found = 0;
    for (j = 0; j < w.nused; j++) {
      const uint8_t *lo = w.used[j].wbase + w.used[j].off;
      if (live[i].code->code == lo) {
        found = 1;
        if (w.used[j].size < live[i].size) { snprintf (what, sizeof what, "live code of %d bytes sits in a chunk of %d bytes", live[i].size, w.used[j].size); viol ("chunk-too-small", what, history, caseidx); return 1; }
        if ((const uint8_t *) live[i].code->exec != w.used[j].xbase + w.used[j].off) { viol ("exec-write-mismatch", "exec pointer does not correspond to the write pointer's chunk", history, caseidx); return 1; }
      }
    }
    if (!found) { snprintf (what, sizeof what, "live code object %d (%d bytes) is not inside any used chunk", i, live[i].size); viol ("live-not-in-used-chunk", what, history, caseidx); return 1; }
  }
  for (i = 0; i < nlive; i++) for (j = i + 1; j < nlive; j++) {
    const uint8_t *a = live[i].code->code, *b = live[j].code->code;
    if (a < b + live[j].size && b < a + live[i].size) { viol ("overlap", "two live code objects overlap", history, caseidx); return 1; }
  }
  if (just_allocated_aligned > 0 && regions_before >= 0 && w.nregions > regions_before && maxfree_before >= just_allocated_aligned) {
    snprintf (what, sizeof what, "a new region was created for a %d byte request although a free chunk of %d bytes existed (regions %d -> %d)", just_allocated_aligned, maxfree_before, regions_before, w.nregions);
    viol ("region-not-reused", what, history, caseidx); return 1;
  }
  vh_set_addf ("region_counts", "%d", w.nregions);
  return 0;
}

/* ------------------------------------------------------------------ enum */
static const int sizes[] = { 1, 16, 17, 4000, 30000, 65536 };
#define NSIZES 6

static uint64_t fnv (const uint8_t *p, int n) { uint64_t h = 1469598103934665603ULL; int i; for (i = 0; i < n; i++) h = (h ^ p[i]) * 1099511628211ULL; return h; }

static int step_alloc (int size, char *hist, long caseidx)
{
  Walk w; OrcCode *c; int aligned = (size < 1 ? 1 : size); int i;
  aligned = (aligned + _orc_codemem_alignment) & ~_orc_codemem_alignment;
  do_walk (&w);
  c = orc_code_new ();
  orc_code_allocate_codemem (c, size);
  if (!c->chunk) { orc_code_free (c); viol ("alloc-failed", "orc_code_allocate_codemem found no chunk", hist, caseidx); return 1; }
  for (i = 0; i < size; i++) c->code[i] = (uint8_t) (i * 31 + size + nlive * 7);
  live[nlive].code = c; live[nlive].size = size; live[nlive].hash = fnv (c->code, size); live[nlive].prog = NULL; nlive++;
  return check_state (hist, caseidx, w.nregions, w.maxfree, aligned);
}

static int step_free (int k, char *hist, long caseidx)
{
  int i;
  /* bytes of every live object unchanged since birth */
  for (i = 0; i < nlive; i++) if (fnv (live[i].code->code, live[i].size) != live[i].hash) { viol ("bytes-changed", "bytes of a live code object changed", hist, caseidx); return 1; }
  orc_code_free (live[k].code);
  live[k] = live[--nlive];
  return check_state (hist, caseidx, -1, 0, 0);
}

static uint64_t enum_count;

static void run_sequence (const int *acts, int d, long caseidx)
{
  char hist[400] = ""; int i, bad = 0;
  for (i = 0; i < d && !bad; i++) {
    char t[24];
    if (acts[i] < NSIZES) { snprintf (t, sizeof t, "a%d ", sizes[acts[i]]); strcat (hist, t); bad = step_alloc (sizes[acts[i]], hist, caseidx); }
    else { snprintf (t, sizeof t, "f%d ", acts[i] - NSIZES); strcat (hist, t); bad = step_free (acts[i] - NSIZES, hist, caseidx); }
    vh_count ("steps", 1);
  }
  /* free all */
  while (nlive && !bad) { strcat (hist, "f0 "); bad = step_free (0, hist, caseidx); }
  while (nlive) { orc_code_free (live[0].code); live[0] = live[--nlive]; }
  enum_count++;
}

static void enum_rec (int *acts, int depth, int d, int nl, long *leaf)
{
  int a;
  if (depth == d) {
    long idx = (*leaf)++;
    if (vh_my_case (idx)) { if ((idx & 1023) == 0) vh_progress (idx, "enum sequence"); run_sequence (acts, d, idx); if ((enum_count & 4095) == 0) vh_flush (); }
    return;
  }
  for (a = 0; a < NSIZES; a++) { acts[depth] = a; enum_rec (acts, depth + 1, d, nl + 1, leaf); }
  for (a = 0; a < nl; a++) { acts[depth] = NSIZES + a; enum_rec (acts, depth + 1, d, nl - 1, leaf); }
}

/* ------------------------------------------------------------------ hist */
static uint64_t run_checksum (OrcCode *code, OrcProgram *p_for_vars, int emulate)
{
  /* executes through a code-only executor (works after the program is freed) */
  static uint8_t bufs[ORC_N_VARIABLES][2048]; OrcExecutor ex; int i, j; uint64_t h = 7;
  memset (&ex, 0, sizeof ex);
  ex.arrays[ORC_VAR_A2] = code; ex.n = 23; ex.params[ORC_VAR_A1] = 1;
  for (i = 0; i < ORC_VAR_A1; i++) { for (j = 0; j < 2048; j++) bufs[i][j] = (uint8_t) (j * 5 + i * 11 + 3); ex.arrays[i] = bufs[i] + 512; ex.params[i] = 256; }
  for (i = ORC_VAR_P1; i < ORC_VAR_P1 + 8; i++) { ex.params[i] = 3; ex.params[i + 8] = 0; }
  (void) p_for_vars;
  if (emulate) orc_executor_emulate (&ex); else code->exec (&ex);
  for (i = 0; i < 4; i++) for (j = 0; j < 2048; j++) h = (h ^ bufs[i][j]) * 1099511628211ULL;
  for (i = 0; i < 4; i++) h = (h ^ (uint32_t) ex.accumulators[i]) * 1099511628211ULL;
  return h;
}

static void mode_hist (void)
{
  long c, ncases = vh_args.thorough ? 64 : 16, steps = vh_args.thorough ? 20000 : 6000;
  OrcTarget *sse = orc_target_get_by_name ("sse"), *avx = orc_target_get_by_name ("avx");
  for (c = 0; c < ncases; c++) {
    VhRng r; long s; char desc[60]; int maxregions = 0, regions_at_half = 0;
    if (!vh_my_case (c)) continue;
    vh_rng_init (&r, vh_args.seed, (uint64_t) c);
    snprintf (desc, sizeof desc, "history %ld", c); vh_progress (c, desc);
    for (s = 0; s < steps; s++) {
      int op = (int) vh_randn (&r, 100); char hist[120];
      int cap = 8 + (int) (c % 5) * 10;      /* bounded working set */
      snprintf (hist, sizeof hist, "random history %ld step %ld op %d live %d", c, s, op, nlive);
      if ((op < 55 && nlive < cap) || nlive == 0) {
        ProgSpec ps; OrcProgram *p; OrcCompileResult res; Walk w; int aligned;
        gen_init (&ps, "h");
        if (!gen_random (&ps, &r, GP_INT | GP_ACC, 1 + (int) vh_randn (&r, vh_chance (&r, 1, 8) ? 60 : 10))) continue;
        { int q, sp = 0; for (q = 0; q < ps.ninsns; q++) { int k = gen_op (&ps.insns[q])->kind; if (k != RK_ELEM && k != RK_ACC) sp = 1; } if (sp || ps.is2d) continue; }
        p = gen_build (&ps);
        do_walk (&w);
        res = orc_program_compile_for_target (p, vh_chance (&r, 1, 2) ? sse : avx);
        if (!ORC_COMPILE_RESULT_IS_SUCCESSFUL (res) || !p->orccode || !p->orccode->chunk) { orc_program_free (p); vh_count ("hist.not_native", 1); continue; }
        live[nlive].size = p->orccode->code_size; live[nlive].hash = fnv (p->orccode->code, p->orccode->code_size);
        live[nlive].out = run_checksum (p->orccode, p, 1);
        if (run_checksum (p->orccode, p, 0) != live[nlive].out) {
          /* native != emulation right after compilation is C01's business, not a code memory problem */
          vh_count ("hist.birth_mismatch_not_judged_here", 1);
          if (vh_args.verbose) { VhBuf tb = { 0 }; gen_print_orc (&ps, &tb, NULL, NULL); fprintf (stderr, "BIRTH MISMATCH target %s\n%s\n", p->orccode ? "?" : "?", tb.p); free (tb.p); }
          orc_program_free (p); continue;
        }
        if (vh_chance (&r, 1, 2)) { live[nlive].code = orc_program_take_code (p); orc_program_free (p); live[nlive].prog = NULL; vh_count ("hist.take_code", 1); }
        else { live[nlive].code = p->orccode; live[nlive].prog = p; }
        nlive++;
        aligned = (live[nlive - 1].size + _orc_codemem_alignment) & ~_orc_codemem_alignment;
        vh_count ("hist.compiled", 1);
        if (check_state (hist, c, w.nregions, w.maxfree, aligned)) break;
      } else if (op < 80 && nlive) {
        int k = (int) vh_randn (&r, nlive);
        if (live[k].prog) orc_program_free (live[k].prog); else orc_code_free (live[k].code);
        live[k] = live[--nlive];
        vh_count ("hist.freed", 1);
        if (check_state (hist, c, -1, 0, 0)) break;
      } else if (nlive && op >= 92 && live[(int) (s % nlive)].prog) {
        /* the same program object compiled again in place: its previous code has to go back to the allocator */
        int k = (int) (s % nlive); OrcProgram *p = live[k].prog; OrcCompileResult res;
        res = orc_program_compile_for_target (p, vh_chance (&r, 1, 2) ? sse : avx);
        vh_count ("hist.recompiled_in_place", 1);
        if (!ORC_COMPILE_RESULT_IS_SUCCESSFUL (res) || !p->orccode || !p->orccode->chunk) { orc_program_free (p); live[k] = live[--nlive]; }
        else { live[k].code = p->orccode; live[k].size = p->orccode->code_size; live[k].hash = fnv (p->orccode->code, p->orccode->code_size); live[k].out = run_checksum (p->orccode, p, 1); }
        if (check_state (hist, c, -1, 0, 0)) break;
      } else if (nlive) {
        /* every live function: bytes as at birth, and still computes its result where it was placed */
        int k = (int) vh_randn (&r, nlive);
        if (fnv (live[k].code->code, live[k].size) != live[k].hash) { viol ("bytes-changed", "bytes of a live compiled function changed", hist, c); break; }
        if (run_checksum (live[k].code, NULL, 0) != live[k].out) { viol ("live-function-wrong-result", "a live compiled function no longer computes its result", hist, c); break; }
        vh_count ("hist.reexecuted", 1);
      }
      vh_count ("steps", 1);
      if (s == steps / 2) { Walk w; do_walk (&w); regions_at_half = w.nregions; }
      if ((s & 1023) == 0) { Walk w; do_walk (&w); if (w.nregions > maxregions) maxregions = w.nregions; }
    }
    { Walk w; do_walk (&w); vh_set_addf ("hist_regions", "case%ld:half=%d,end=%d", c, regions_at_half, w.nregions);
      if (regions_at_half > 0 && w.nregions > regions_at_half + 2) { char what[200]; snprintf (what, sizeof what, "bounded working set: %d regions after half of the history, %d at the end", regions_at_half, w.nregions); viol ("regions-grow", what, "random history", c); } }
    while (nlive) { nlive--; if (live[nlive].prog) orc_program_free (live[nlive].prog); else orc_code_free (live[nlive].code); }
    vh_flush ();
  }
}

int main (int argc, char **argv)
{
  vh_parse_args (argc, argv);
  orc_init ();
  if (!strcmp (vh_args.mode, "enum")) {
    int acts[16]; long leaf = 0; int d = vh_args.limit > 0 ? (int) vh_args.limit : (vh_args.thorough ? 7 : 6);
    enum_rec (acts, 0, d, 0, &leaf);
    vh_count ("sequences", enum_count);
    { char t[32]; snprintf (t, sizeof t, "%d", d); vh_set_add ("depth", t); snprintf (t, sizeof t, "%ld", leaf); vh_set_add ("total_sequences", t); }
  } else mode_hist ();
  vh_done ();
  return 0;
}
