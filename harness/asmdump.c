/* asmdump.c - compile generated programs for x86 targets under many flag
 * sets and dump, per batch, the assembly listing (.s), the machine code
 * (.bin, functions aligned to 16 with 0xcc filler) and an index (.json lines).
 * The Python side (vlib/asmcmp.py) assembles/disassembles and compares (C12)
 * and re-assembles the disassembly under ISA restrictions (C11).
 *
 * --mode c12 | c11   (program mix / flag sets)
 * --aux <outdir>
 */
#define _GNU_SOURCE
#include <orc/orc.h>
#include "vh.h"
#include "ref.h"
#include "gen.h"
#include "progs.h"

typedef struct { const char *name; OrcTarget *t; unsigned dflags; } Tgt;
static Tgt tgts[5]; static int n_tgts;

static FILE *fs[4], *fb[4], *fj[4];   /* per kind of batch (0: x86-64, 1: x86-32, 2: mips, 3: neon) */
static long boff[4];
static int batchno[4], inbatch[4];
static const char *bname[4] = { "b64", "b32", "bmips", "bneon" };
static const char *outdir;
#define BATCH 64

static void open_batch (int w)
{
  char p[512];
  snprintf (p, sizeof p, "%s/%s_s%d_%d.s", outdir, bname[w], vh_args.shard, batchno[w]); fs[w] = fopen (p, "w");
  snprintf (p, sizeof p, "%s/%s_s%d_%d.bin", outdir, bname[w], vh_args.shard, batchno[w]); fb[w] = fopen (p, "wb");
  snprintf (p, sizeof p, "%s/%s_s%d_%d.json", outdir, bname[w], vh_args.shard, batchno[w]); fj[w] = fopen (p, "w");
  if (!fs[w] || !fb[w] || !fj[w]) { perror ("open batch"); exit (2); }
  fprintf (fs[w], w == 2 ? ".text\n.set noreorder\n" : ".text\n");
  boff[w] = 0; inbatch[w] = 0;
}
static void close_batch (int w)
{
  if (!fs[w]) return;
  fclose (fs[w]); fclose (fb[w]); fclose (fj[w]); fs[w] = NULL; batchno[w]++;
}

static void emit (int w, const char *fname, const char *listing, const unsigned char *code, int size, const ProgSpec *ps,
    const Tgt *tg, unsigned flags, long caseidx)
{
  VhBuf b = { 0 };
  long pad;
  if (!fs[w]) open_batch (w);
  /* listing: make sure each function starts 16-aligned like the .bin */
  fprintf (fs[w], w >= 2 ? "\n# ---- %s\n.p2align 4\n%s\n" : "\n# ---- %s\n.p2align 4,0xcc\n%s\n", fname, listing);
  pad = (16 - (boff[w] & 15)) & 15;
  while (pad--) { fputc (w >= 2 ? 0x00 : 0xcc, fb[w]); boff[w]++; }
  fwrite (code, 1, size, fb[w]);
  vh_buf_printf (&b, "{\"name\":\"%s\",\"offset\":%ld,\"size\":%d,\"case\":%ld,\"target\":\"%s\",\"flags\":%u,\"program\":", fname, boff[w], size, caseidx, tg->name, flags);
  gen_to_json (ps, &b);
  vh_buf_printf (&b, "}");
  fprintf (fj[w], "%s\n", b.p);
  free (b.p);
  boff[w] += size;
  if (++inbatch[w] >= BATCH) close_batch (w);
}

/* flag sets per target */
static int flag_sets (const Tgt *tg, unsigned *out, int max, int mode_c11, VhRng *r, int is_single)
{
  int n = 0, i;
  unsigned d = tg->dflags;
  if (!strcmp (tg->name, "sse")) {
    unsigned feat[] = { ORC_TARGET_SSE_SSE2, ORC_TARGET_SSE_SSE3, ORC_TARGET_SSE_SSSE3, ORC_TARGET_SSE_SSE4_1, ORC_TARGET_SSE_SSE4_2 };
    unsigned all = 0; for (i = 0; i < 5; i++) all |= feat[i];
    out[n++] = d;
    out[n++] = d & ~ORC_TARGET_SSE_64BIT;
    out[n++] = d | ORC_TARGET_SSE_SHORT_JUMPS;
    out[n++] = d | ORC_TARGET_SSE_FRAME_POINTER;
    if (mode_c11 && is_single) {
      unsigned m;
      for (m = 0; m < 32 && n < max; m++) {
        unsigned f = 0; for (i = 0; i < 5; i++) if (m & (1u << i)) f |= feat[i];
        if (!(f & ORC_TARGET_SSE_SSE2)) continue;       /* sse target needs SSE2 */
        out[n++] = (d & ~all) | f;
        if ((m & 7) == 1) out[n++] = ((d & ~all) | f) & ~ORC_TARGET_SSE_64BIT;
      }
    } else {
      unsigned f = ORC_TARGET_SSE_SSE2; for (i = 1; i < 5; i++) if (vh_chance (r, 1, 2)) f |= feat[i];
      out[n++] = (d & ~all) | f;
      out[n++] = ((d & ~all) | ORC_TARGET_SSE_SSE2);
      out[n++] = ((d & ~all) | f) & ~ORC_TARGET_SSE_64BIT;
    }
  } else if (!strcmp (tg->name, "mips") || !strcmp (tg->name, "neon")) {
    out[n++] = d;
  } else if (!strcmp (tg->name, "avx")) {
    out[n++] = d;
    out[n++] = d | ORC_TARGET_SSE_SHORT_JUMPS;
    out[n++] = d | ORC_TARGET_SSE_FRAME_POINTER;
    out[n++] = d & ~ORC_TARGET_AVX_AVX2;   /* AVX only: no integer rules, must not produce AVX2 code */
    out[n++] = d & ~ORC_TARGET_SSE_64BIT;
  } else {
    unsigned feat[] = { ORC_TARGET_MMX_MMXEXT, ORC_TARGET_MMX_SSSE3, ORC_TARGET_MMX_SSE4_1, ORC_TARGET_MMX_3DNOW, ORC_TARGET_MMX_3DNOWEXT };
    unsigned all = 0; for (i = 0; i < 5; i++) all |= feat[i];
    out[n++] = d;
    out[n++] = d & ~ORC_TARGET_MMX_64BIT;
    out[n++] = d | ORC_TARGET_MMX_SHORT_JUMPS;
    out[n++] = d | ORC_TARGET_MMX_FRAME_POINTER;
    if (mode_c11 && is_single) {
      unsigned m;
      for (m = 0; m < 8 && n < max; m++) {
        unsigned f = 0; for (i = 0; i < 3; i++) if (m & (1u << i)) f |= feat[i];
        out[n++] = (d & ~all) | ORC_TARGET_MMX_MMX | f;
      }
      out[n++] = ((d & ~all) | ORC_TARGET_MMX_MMX) & ~ORC_TARGET_MMX_64BIT;
      /* feature bits this host does not have can still be asked for: the code is classified, not executed */
      if (n + 4 <= max) {
        out[n++] = (d & ~all) | ORC_TARGET_MMX_MMX | ORC_TARGET_MMX_MMXEXT | ORC_TARGET_MMX_3DNOW;
        out[n++] = (d & ~all) | ORC_TARGET_MMX_MMX | ORC_TARGET_MMX_MMXEXT | ORC_TARGET_MMX_3DNOW | ORC_TARGET_MMX_3DNOWEXT;
        out[n++] = (d & ~all) | ORC_TARGET_MMX_MMX | ORC_TARGET_MMX_MMXEXT | ORC_TARGET_MMX_3DNOW | ORC_TARGET_MMX_SSE4_1;
        out[n++] = (d & ~all) | ORC_TARGET_MMX_MMX | all;
      }
    } else {
      unsigned f = 0; for (i = 0; i < 3; i++) if (vh_chance (r, 1, 2)) f |= feat[i];
      out[n++] = (d & ~all) | ORC_TARGET_MMX_MMX | f;
      out[n++] = (d & ~all) | ORC_TARGET_MMX_MMX;
    }
  }
  return n;
}

int main (int argc, char **argv)
{
  long c, total, N_single, N_pairs, N_random, N_special, N_regs;
  unsigned profile = GP_INT | GP_FLOAT | GP_ACC | GP_2D | GP_HINTS | GP_EXPLICIT_LS | GP_SPECIAL;
  int mode_c11;
  vh_parse_args (argc, argv);
  outdir = vh_args.aux ? vh_args.aux : ".";
  mode_c11 = !strcmp (vh_args.mode, "c11");
  orc_init ();
  { const char *names[] = { "sse", "avx", "mmx" }; int i; for (i = 0; i < 3; i++) { OrcTarget *t = orc_target_get_by_name (names[i]);
      if (t) { tgts[n_tgts].name = names[i]; tgts[n_tgts].t = t; tgts[n_tgts].dflags = orc_target_get_default_flags (t); n_tgts++; } } }
  /* C12 also has a standard assembler for MIPS (llvm-mc): listing and code of the mips back end are dumped into batches of their own */
  if (!mode_c11) { OrcTarget *t = orc_target_get_by_name ("mips"); if (t) { tgts[n_tgts].name = "mips"; tgts[n_tgts].t = t; tgts[n_tgts].dflags = orc_target_get_default_flags (t); n_tgts++; } }
  /* (neon: batches of kind 3 exist for experiments - `--aux2 neon` - but are not part of the check: see DESIGN.md, "Out of reach") */
  if (!mode_c11 && vh_args.aux2 && !strcmp (vh_args.aux2, "neon")) { OrcTarget *t = orc_target_get_by_name ("neon"); if (t) { tgts[n_tgts].name = "neon"; tgts[n_tgts].t = t; tgts[n_tgts].dflags = orc_target_get_default_flags (t); n_tgts++; } }
  enumerate_single (profile);
  enumerate_pairs (profile & (GP_INT | GP_FLOAT | GP_ACC));
  N_single = n_single;
  N_pairs = vh_args.thorough ? (n_pairs < 6000 ? n_pairs : 6000) : 600;
  N_random = vh_args.thorough ? 12000 : 1500;
  N_special = vh_args.thorough ? 1500 : 200;
  if (vh_args.limit > 0) N_random = vh_args.limit;
  N_regs = vh_args.thorough ? 4000 : 500;      /* many arrays (all general registers in use, callee-saved ones and rbp/r13 as pointers) with special loads */
  total = N_single + N_pairs + N_random + N_special + N_regs;
  for (c = 0; c < total; c++) {
    ProgSpec ps; VhRng r; char desc[120]; int ok = 1, is_single = 0, ti;
    if (!vh_my_case (c)) continue;
    vh_rng_init (&r, vh_args.seed, (uint64_t) c);
    if (c < N_single) { build_single (&ps, &single_forms[c], &r); is_single = 1; }
    else if (c < N_single + N_pairs) { long k = c - N_single; long idx = (long) ((vh_args.seed * 2654435761ULL + (uint64_t) k * 7919) % (uint64_t) n_pairs); build_pair (&ps, &pair_forms[idx], &r); }
    else if (c < N_single + N_pairs + N_random) { char nm[32]; snprintf (nm, sizeof nm, "rand_%ld", c); gen_init (&ps, nm); ok = gen_random (&ps, &r, profile & ~GP_SPECIAL, 2 + (int) vh_randn (&r, 16)); }
    else if (c < N_single + N_pairs + N_random + N_special) { char nm[32]; snprintf (nm, sizeof nm, "spec_%ld", c); gen_init (&ps, nm); ok = gen_random (&ps, &r, profile, 1 + (int) vh_randn (&r, 6)); }
    else { char nm[32]; snprintf (nm, sizeof nm, "regs_%ld", c); gen_init (&ps, nm); ok = gen_random (&ps, &r, profile | GP_SPECIAL | GP_2D, 10 + (int) vh_randn (&r, 14)); }
    snprintf (desc, sizeof desc, "asmdump %s", ps.name);
    vh_progress (c, desc);
    if (!ok || !gen_valid (&ps)) { vh_count ("cases.invalid_spec", 1); continue; }
    vh_count ("cases.run", 1);
    for (ti = 0; ti < n_tgts; ti++) {
      unsigned fl[64]; int nf = flag_sets (&tgts[ti], fl, 60, mode_c11, &r, is_single), k, j;
      for (k = 0; k < nf; k++) {
        OrcProgram *p; OrcCompileResult res; char fname[80]; int w, dup = 0;
        for (j = 0; j < k; j++) if (fl[j] == fl[k]) dup = 1;
        if (dup) continue;
        snprintf (fname, sizeof fname, "f%ld_%s_%x", c, tgts[ti].name, fl[k]);
        snprintf (ps.name, sizeof ps.name, "%s", fname);
        p = gen_build (&ps);
        res = orc_program_compile_full (p, tgts[ti].t, fl[k]);
        vh_countf (1, "compile.%s.%s", tgts[ti].name, ORC_COMPILE_RESULT_IS_SUCCESSFUL (res) ? "ok" : ORC_COMPILE_RESULT_IS_FATAL (res) ? "fatal" : "nonfatal");
        if (ORC_COMPILE_RESULT_IS_SUCCESSFUL (res) && p->orccode && p->orccode->code && orc_program_get_asm_code (p)) {
          w = !strcmp (tgts[ti].name, "mips") ? 2 : !strcmp (tgts[ti].name, "neon") ? 3 : (!strcmp (tgts[ti].name, "mmx") ? !(fl[k] & ORC_TARGET_MMX_64BIT) : !(fl[k] & ORC_TARGET_SSE_64BIT));
          emit (w, fname, orc_program_get_asm_code (p), p->orccode->code, p->orccode->code_size, &ps, &tgts[ti], fl[k], c);
          vh_countf (1, "dumped.%s.%s", tgts[ti].name, w == 2 ? "mips32" : w == 3 ? "arm32" : w ? "32" : "64");
          vh_set_addf ("flagsets", "%s:%x", tgts[ti].name, fl[k]);
        }
        orc_program_free (p);
      }
    }
    if ((c & 63) == 0) vh_flush ();
  }
  close_batch (0); close_batch (1); close_batch (2); close_batch (3);
  vh_done ();
  return 0;
}
