#!/bin/sh
# usage: seedconfirm.sh <worktree> <seeded dir>  - confirms a seeded change by hand: demo passes on the unchanged tree, the patch applies and builds,
# the 33 tests pass with it, the demo fails with it.  Prints one CONFIRM line.
w=$1; d=$2; cd "$w" || exit 2
git checkout -q -- orc tools 2>/dev/null; git stash -q 2>/dev/null
[ -d _build ] || meson setup _build >/dev/null 2>&1
ninja -C _build >/dev/null 2>&1 || { echo "CONFIRM $d: clean build failed"; exit 2; }
build_demo() {
  if [ -f "$d/demonstration.sh" ]; then return 0; fi
  gcc -O1 -I. -I_build -DORC_ENABLE_UNSTABLE_API -D_GNU_SOURCE "$d"/demonstration.c -o _build/seed_demo -rdynamic -L_build/orc -L_build/orc-test -lorc-0.4 -lorc-test-0.4 -Wl,-rpath,$PWD/_build/orc -Wl,-rpath,$PWD/_build/orc-test -lpthread -lm -ldl 2>_build/seed_demo.err
}
run_demo() {
  if [ -f "$d/demonstration.sh" ]; then (cd "$w" && timeout 600 sh "$d/demonstration.sh" >/dev/null 2>&1); else timeout 600 ./_build/seed_demo >/dev/null 2>&1; fi
}
build_demo || { echo "CONFIRM $d: demo does not build: $(head -3 _build/seed_demo.err)"; exit 2; }
run_demo; r0=$?
git apply "$d/patch.diff" || { echo "CONFIRM $d: patch does not apply"; exit 2; }
ninja -C _build >/dev/null 2>&1 || { echo "CONFIRM $d: changed tree does not build"; git checkout -q -- .; exit 2; }
t=$(meson test -C _build 2>&1 | grep -E '^(Ok|Fail):' | tr -s ' ' | tr '\n' ' ')
build_demo; run_demo; r1=$?
git checkout -q -- orc tools
echo "CONFIRM $(basename $d): demo unchanged rc=$r0, changed rc=$r1, tests with change: $t"
