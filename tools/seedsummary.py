#!/usr/bin/env python3
"""Print the per-property summary table of seeded/results.json (pasted into DESIGN.md section 8)."""
import json, os, collections
HERE = os.path.dirname(os.path.dirname(os.path.abspath(__file__)))
rs = json.load(open(os.path.join(HERE, "seeded", "results.json")))
byprop = collections.OrderedDict()
for r in rs:
    pid = r["seeded"].split("-")[0]
    byprop.setdefault(pid, []).append(r)
print("| property | seeded changes (own check / other checks) |")
print("|---|---|")
tot = det_own = det_any = 0
for pid, lst in byprop.items():
    cells = []
    for r in lst:
        tot += 1
        own = r["results"].get(pid, {}).get("verdict", "not run")
        others = ["%s %s" % (k, "caught" if v["verdict"] == "DETECTED" else v["verdict"]) for k, v in r["results"].items() if k != pid]
        if own == "DETECTED":
            det_own += 1
        if any(v["verdict"] == "DETECTED" for v in r["results"].values()):
            det_any += 1
        cells.append("%s: %s%s" % (r["seeded"].split("-")[1], "caught" if own == "DETECTED" else own.upper(), (" (" + ", ".join(others) + ")") if others else ""))
    print("| %s | %s |" % (pid, "; ".join(cells)))
print()
print("%d changes; %d caught by the check of their own property, %d by at least one check." % (tot, det_own, det_any))
