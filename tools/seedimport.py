#!/usr/bin/env python3
"""Copy the deliverables of a mutation agent (<dir>/out/m<k>.diff, m<k>_demo*, m<k>.json) into seeded/<ID>-m<k>/."""
import glob, json, os, shutil, sys
HERE = os.path.dirname(os.path.dirname(os.path.abspath(__file__)))
base = sys.argv[1]
for pid in sys.argv[2:]:
    out = os.path.join(base, pid, "out")
    for diff in sorted(glob.glob(os.path.join(out, "m[0-9].diff"))):
        k = os.path.basename(diff)[1]
        d = os.path.join(HERE, "seeded", "%s-m%s" % (pid, k))
        os.makedirs(d, exist_ok=True)
        shutil.copy(diff, os.path.join(d, "patch.diff"))
        for f in glob.glob(os.path.join(out, "m%s_demo*" % k)):
            if f.endswith((".c", ".sh", ".orc", ".h")):
                shutil.copy(f, os.path.join(d, os.path.basename(f)[len("m%s_" % k):].replace("demo", "demonstration", 1)))
        try:
            meta = json.load(open(os.path.join(out, "m%s.json" % k)))
        except Exception as e:
            meta = {"summary": "(meta unreadable: %s)" % e}
        meta["property"] = pid
        meta["origin"] = "sub-agent given only the property text and a scratch worktree"
        json.dump(meta, open(os.path.join(d, "meta.json"), "w"), indent=1)
        print("imported", os.path.basename(d))
