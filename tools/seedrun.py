#!/usr/bin/env python3
"""Run checks against a seeded change (seeded/<name>/patch.diff).
usage: tools/seedrun.py seeded/<name> [--tier quick] [--seed N] [--in-place] [ID ...]   (default IDs: meta.json 'property')
Default: the patch is applied to a scratch git worktree of /repo under /tmp (removed afterwards) and the checks are pointed
at it with VERIF_REPO, their evidence/replay output redirected with VERIF_OUT, so /repo and /verif/evidence stay untouched.
--in-place: `git -C /repo apply`, run, `git -C /repo checkout -- .` (what a user would do by hand).
Prints one line per check: DETECTED (exit 1 with VIOLATION), missed (exit 0), or inconclusive (exit 2)."""
import json
import os
import shutil
import subprocess
import sys
import time

HERE = os.path.dirname(os.path.dirname(os.path.abspath(__file__)))
REPO = "/repo"


def main():
    args = sys.argv[1:]
    tier, seed, ids, d, inplace = "quick", "1", [], None, False
    while args:
        a = args.pop(0)
        if a == "--tier":
            tier = args.pop(0)
        elif a == "--seed":
            seed = args.pop(0)
        elif a == "--in-place":
            inplace = True
        elif d is None:
            d = a
        else:
            ids.append(a)
    d = os.path.abspath(d)
    name = os.path.basename(d)
    meta = json.load(open(os.path.join(d, "meta.json")))
    if not ids:
        ids = [meta["property"]]
    patch = os.path.join(d, "patch.diff")
    env = dict(os.environ)
    if inplace:
        st = subprocess.run(["git", "-C", REPO, "status", "--porcelain", "--untracked-files=no"], capture_output=True, text=True).stdout.strip()
        if st:
            print("refusing: %s has uncommitted changes" % REPO)
            return 2
        tree = REPO
        outdir = None
    else:
        tree = "/tmp/verif-seed/%s-%d" % (name, os.getpid())
        outdir = tree + "-out"
        os.makedirs(os.path.dirname(tree), exist_ok=True)
        subprocess.run(["git", "-C", REPO, "worktree", "add", "-q", "--detach", tree, "HEAD"], check=True)
        env["VERIF_REPO"] = tree
        env["VERIF_OUT"] = outdir
    results = {}
    try:
        r = subprocess.run(["git", "-C", tree, "apply", patch], capture_output=True, text=True)
        if r.returncode != 0:
            print("%s: patch does not apply: %s" % (name, r.stderr[:300]))
            return 2
        for pid in ids:
            t0 = time.time()
            p = subprocess.run([os.path.join(HERE, "check"), pid, "--tier", tier, "--seed", seed], capture_output=True, text=True, env=env)
            if p.returncode not in (0, 1) or (p.returncode == 1 and "VIOLATION" not in p.stdout):
                print("   stderr tail: " + p.stderr[-600:].replace("\n", "\n   "))
            viol = [l for l in p.stdout.splitlines() if l.startswith("VIOLATION")]
            verdict = "DETECTED" if (p.returncode == 1 and viol) else ("missed" if p.returncode == 0 else "inconclusive(rc=%s)" % p.returncode)
            sigs = []
            for l in viol[:4]:
                try:
                    sigs.append(json.load(open(l.split("replay=")[1].strip()))["signature"])
                except Exception:
                    pass
            results[pid] = {"verdict": verdict, "violations": len(viol), "signatures": sigs, "wall_s": round(time.time() - t0, 1)}
            print("%s %s %s seed=%s: %s (%d violation lines, %.0fs) %s" % (name, pid, tier, seed, verdict, len(viol), time.time() - t0, "; ".join(sigs)[:400]))
            if verdict.startswith("inconclusive"):
                print("   " + "\n   ".join(p.stdout.splitlines()[-5:]))
    finally:
        if inplace:
            subprocess.run(["git", "-C", REPO, "checkout", "--", "."], check=True)
        else:
            subprocess.run(["git", "-C", REPO, "worktree", "remove", "--force", tree])
            shutil.rmtree(outdir, ignore_errors=True)
    print(json.dumps({"seeded": name, "tier": tier, "seed": seed, "results": results}))
    return 0


if __name__ == "__main__":
    sys.exit(main())
