#!/usr/bin/env python3
"""Writes MANIFEST.json from the table below (kept next to the checks so that they stay in sync)."""
import json
import os
import subprocess

HERE = os.path.dirname(os.path.abspath(__file__))

CHECKS = {
    "C01": dict(engine="exec", cat="exploration", tech="runtime differential monitoring: native JIT code vs emulator over generated programs and inputs",
                text="differential execution of generated programs (exhaustive over single-opcode forms, sampled pairs/random programs, special loads with parameter and constant operands, four-accumulator and many-array programs, 2-D incl. m = 0, poisoned executors) on all three executable x86 targets against the emulator; held means no destination byte or accumulator differed on the executions listed in the evidence",
                note="trusts the host CPU and the harness (generator, arena, comparison); emulator correctness itself is C02"),
    "C02": dict(engine="emu+exec", cat="exploration", tech="runtime monitoring of the emulator against an independent executable reference over exhaustive/boundary operand sweeps",
                text="every opcode emulated on exhaustive 8/16-bit operand values (thorough: all 16-bit pairs), boundary-crossed 32/64-bit values, all chunk positions and prefixes, compared with an independently written reference; multi-instruction programs against a whole-program interpreter; float/double opcodes (single forms, pairs, random programs on structured operands) emulated vs the reference in the default floating-point environment",
                note="trusts harness/ref.c as the reading of the opcode reference (deviations from the doc table's pseudo-code are listed in DESIGN.md)"),
    "C03": dict(engine="exec", cat="exploration", tech="guard-page and canary monitoring of real executions (PROT_NONE pages flush against every array, read-only sources)",
                text="every array flush against an inaccessible page on either side, rows separated by unmapped pages or canaried gaps, sources read-only; native and emulated executions observed for faults and canary damage; two arena slots straddle a 4 GiB boundary so that rows of 2-D arrays lie on both sides of it; a CPU-time watchdog turns a native call that does not return into a bounded hang report",
                note="reads inside the mapped data pages but outside entitled elements are visible only at array ends; entitled ranges computed by the harness"),
    "C10": dict(engine="exec", cat="exploration", tech="state-seeding assembly trampoline monitoring callee-saved registers, rsp, stack canaries, MXCSR, DF, x87 tags around every JIT call",
                text="all native executions of generated programs (incl. many-array programs forcing callee-saved registers and four-accumulator programs) run through a trampoline that seeds and compares machine state; the executor lies flush against a guard page at its natural alignment so that a write behind it faults",
                note="System V AMD64 only; memory writes outside arrays/executor observed via canaries and guard pages around arrays and executor"),
    "C18": dict(engine="exec", cat="exploration", tech="runtime differential monitoring of float opcodes: native vs emulator vs independent IEEE reference on structured operand sets",
                text="bit-exact three-way comparison (native sse with default, SSE2-only and up-to-SSSE3 flags and avx, emulation, reference) of all float/double opcodes on structured operands, with the tolerances the statement grants (NaN class, min/max of equal operands); NaN propagation of single-instruction arithmetic programs checked lane by lane; plus the gcc-compiled generated C (backup, Orc-free) and the JIT wrapper of every float single-opcode form on wide finite operands",
                note="reference uses host IEEE arithmetic in round-to-nearest; generated C of multi-instruction programs is C04's"),
    "C11": dict(engine="asmdump+asmcmp+exec", cat="exploration", tech="runtime monitoring of emitted machine code: objdump disassembly re-assembled by GNU as under the ISA the flags allow, plus native execution under feature-flag subsets",
                text="every single-opcode program under every SSE/MMX feature subset (plus sampled multi-instruction programs) is compiled; the bytes Orc emitted are disassembled and re-assembled under `.arch` restrictions matching the flags; MMX flag sets naming 3DNow! are classified too; each subset of this host's features is also executed against emulation",
                note="GNU as/objdump are the ISA oracle; 32-bit code and flag sets beyond this host's features are classified but not executed"),
    "C12": dict(engine="asmdump+asmcmp", cat="exploration", tech="runtime comparison of the assembled listing with the emitted machine code through a common disassembler",
                text="listing assembled with GNU as and machine code both disassembled with objdump and compared instruction by instruction (nop padding dropped, branch targets as instruction ordinals) for generated programs x targets x 64/32-bit x jumps x frame pointer x feature subsets; the mips back end is compared the same way through llvm-mc-14/llvm-objdump-14 (mipsel, DSPr2)",
                note="NEON listings are not compared: without GNU as for ARM, differences llvm-mc shows cannot be told apart from dialect differences (DESIGN.md section 5)"),
    "C04": dict(engine="orccgen+orccdrv", cat="exploration", tech="runtime differential monitoring of gcc-compiled generated C (backup and Orc-free forms written by the real orcc) against an independent reference interpreter, plus regeneration of the emulator source",
                text="every single-opcode form (~2000) and random int/float/mixed programs go through orcc; the emitted C is compiled with gcc and run as executor-based backup (ORC_CODE=backup) and as Orc-free DISABLE_ORC build; destination bytes with canary margins, accumulators and sources are compared with the reference interpreter; generate-emulation output is token-compared with the checked-in emulator",
                note="finite float operands only (C18 grants bit-exactness for those); gcc -O2 only; the reference interpreter is tied to emulation by C02"),
    "C06": dict(engine="fault", cat="fault_enumeration", tech="fault injection at the libc boundary (--wrap=mkstemp,ftruncate,mmap) enumerated by call index, ORC_CODE modes and program kinds; results compared with emulation; fd growth and ASan monitors",
                text="every single failure position (and pairs; thorough: all pairs) of the mkstemp/ftruncate/mmap calls liborc makes, and the permanent failure modes, crossed with ORC_CODE settings, backup registration, code-only executors, five program kinds (incl. vector- and general-register exhaustion and a recompile history) and two-dimensional programs, each in its own process; plus runs that keep 1500 programs alive so that code memory must grow while the OS refuses; hangs confirmed by a second longer run",
                note="only the calls code memory uses are failed; malloc failure is not injected"),
    "C07": dict(engine="orccgen+orccdrv+memfn", cat="exploration", tech="end-to-end runtime monitoring of orcc output: generated .orc -> real orcc in 11 option sets -> gcc -> functions called through their prototypes in JIT/backup/emulate/DISABLE_ORC modes and from concurrent threads under TSan, compared with a reference interpreter",
                text="every eighth batch of the ~2000 single-opcode forms plus random functions (thorough: all) x 11 orcc configurations x 4 build/run modes called through the generated C prototype with all parameter classes, strides, accumulators, n, m; concurrent first calls under ThreadSanitizer; orcc --test output compiled and run; orc_memcpy/orc_memset against memcpy/memset for all small lengths and alignments; repository .orc corpus compiled in every configuration",
                note="finite float operands only; gcc -O2 only; --inline/--init-function have no Orc-free form"),
    "C08": dict(engine="mt", cat="exploration", tech="ThreadSanitizer-instrumented multi-threaded stress of init/compile/run/take/free with a yield hook injecting delays between critical sections; results compared with emulation",
                text="many fresh processes per scenario (concurrent orc_init, concurrent compiles on different programs, shared compiled function, take_code/free against compiles, once-guarded first calls) under TSan with randomised delays at the yield hook; report blocks counted and deduplicated, results compared with emulation",
                note="TSan sees only the interleavings the runs produced; distinct orderings observed are reported in the evidence"),
    "C05": dict(engine="api", cat="exploration", tech="ASan/UBSan-instrumented execution of the compiler on generated valid, invalid and over-limit programs for all targets, with a result-classification monitor (also over recompiles of one program object) and a watchdog",
                text="one program object compiled for several targets in a row must satisfy the same contract after each compile; about 500k (quick) compiles of valid, mutated and over-limit programs for all eight registered targets and several flag sets under address/UB sanitizers; after every compile the harness checks the three-way result contract and emulates non-fatal programs (also mutated ones the compiler accepted); includes every opcode with x2/x4 prefix on operands of exactly the multiplied sizes (also beyond 8 bytes)",
                note="sanitizers see only heap/stack/global red-zone and array-subscript violations; bounded time is restated as a 240 s per-case watchdog"),
    "C13": dict(engine="api", cat="exploration", tech="runtime round-trip monitoring (encode, decode, field comparison, re-encode, differential emulation)",
                text="about 60k (quick) generated programs under each of two builds incl. boundary encodings and arbitrary declared alignments are serialised and reconstructed; all public fields, the second encoding and emulation results are compared; run with release and ASan builds",
                note="names are not part of the format; constants compared on their declared width"),
    "C14": dict(engine="api", cat="exploration", tech="sanitizer-instrumented fuzzing of the parser: structured generation with mutations and directed faults (gcc ASan/UBSan) plus coverage-guided libFuzzer (clang), both with an error-record oracle",
                text="300k (quick) / 3M (thorough) texts of nine kinds parsed under ASan/UBSan; error line numbers, reporting of injected faults at their line, compile and free of every returned program are checked",
                note="C-string inputs only; libFuzzer phase bounded by executions (640k quick, 6.4M thorough)"),
    "C15": dict(engine="api", cat="exploration", tech="runtime equivalence monitoring: independent printer -> parser vs construction API (structure, bytecode)",
                text="each generated program is rendered four ways (formatting noise, CRLF, literal spellings, constants as in-place literal operands, 8-byte literals with and without the L suffix) and every parse must be error free and equal to the API-built program; spacing noise includes blanks before the first and after the last token; a text naming an undeclared operand must report an error or keep every instruction",
                note="printer covers integer/hex literal spellings; programs writing a destination twice are outside the text format"),
    "C16": dict(engine="api", cat="exploration", tech="ASan + LeakSanitizer over random legal lifecycle sequences driven by an ownership model, with heap-growth measurement, a parser lifecycle step, and the same accounting under injected mkstemp/ftruncate/mmap failures (--wrap fault harness under ASan+LSan)",
                text="16k (quick) random legal lifecycle sequences per build/environment (one program in six is 12-40 instructions long; executors kept across compiles and resets; programs with several errors at once) under ASan, repeated under LeakSanitizer in three environments, plus a K/4K iteration heap growth comparison",
                note="legality model is the harness'; only leaks reachable at exit or growth visible in mallinfo2 are seen"),
    "C17": dict(engine="api", cat="exploration", tech="runtime comparison of repeated compilations across histories, code placements, reset, processes/debug levels and earlier compiles of the same program under other feature flags",
                text="every program compiled twice with different code-memory history and placement, after reset, and in fresh processes under three debug levels (and twice under ORC_CODE=debug); bytes, listing and result compared for all eight targets; repeat runs of the same code on the same inputs through an executor before and after it was used for a larger n and with every caller-saved vector register filled with different patterns at entry (incl. four-accumulator programs)",
                note="names fixed by the harness; ORC_CODE=debug changes default flags by design and is compared only with itself"),
    "C20": dict(engine="api", cat="exploration", tech="runtime monitoring of extension registration scenarios (call counters, rule identity log, before/after snapshots) in fresh processes",
                text="32 (quick) / 96 (thorough) registration scenarios x 2 builds, each in its own process: extension opcode sets (incl. set names extending 'sys' or an earlier set) emulated and natively compiled against their own reference, rule sets with satisfied/unsatisfied/mixed required flags, rule precedence logged, opcodes with three sources or two destinations, built-in programs compared before/after",
                note="rules registered for sse only"),
    "C09": dict(engine="codemem", cat="exploration", tech="runtime invariant monitoring of the code-memory allocator through a walk hook under its own lock, against a shadow model; exhaustive alloc/free sequences plus random real histories, plus a /proc/self/maps monitor that every function handed out under injected mkstemp/ftruncate/mmap failures lies in executable memory",
                text="all alloc/free sequences to depth 6 (thorough: 7) over six sizes, and long random compile/take_code/free/recompile-in-place/re-execute histories, with structural, overlap, reuse and byte/result-stability invariants checked after every step",
                note="exhaustive only for the stated alphabet and depth; needs the ORC_VERIF_HOOKS walk hook"),
    "C19": dict(engine="cpu", cat="exploration", tech="runtime monitoring of target selection in child processes whose cpuid/XCR0 reads are masked by a hook, plus ISA oracle and execution of the default compile path",
                text="hundreds (thorough: thousands) of simulated feature subsets x override settings, each in a fresh process: default target, executable flags, default flags, named requests and the code returned by the default compile path are checked",
                note="only subsets of this host's CPU features can be simulated"),
}

PENDING = ["C04", "C05", "C06", "C07", "C08", "C09", "C11", "C12", "C13", "C14", "C15", "C16", "C17", "C19", "C20"]

ENGINES = [
    {"name": "exec", "path": "harness/exec.c", "serves_properties": ["C01", "C02", "C03", "C10", "C18"],
     "kind_free_text": "differential execution harness: generated programs run natively through a state-checking trampoline on guard-page arrays, through the emulator and through an independent reference interpreter"},
    {"name": "emu", "path": "harness/emu.c", "serves_properties": ["C02"],
     "kind_free_text": "operand-value sweeps of the emulator against harness/ref.c"},
    {"name": "api", "path": "harness/api.c", "serves_properties": ["C05", "C13", "C14", "C15", "C16", "C17", "C20"],
     "kind_free_text": "API-level monitors (compile totality, bytecode round trip, parser fuzzing, text/API equivalence, lifecycle, determinism, extension opcodes), built with ASan/UBSan or plain"},
    {"name": "codemem", "path": "harness/codemem.c", "serves_properties": ["C09"], "kind_free_text": "allocator history enumeration and random compile/free histories with a hook-based invariant walk"},
    {"name": "orccgen+orccdrv", "path": "harness/orccgen.c", "serves_properties": ["C04", "C07"], "kind_free_text": "generator of .orc batches, prototype-calling drivers and reference checksums; vlib/orccdrv.py runs the real orcc, gcc and the resulting programs in every mode"},
    {"name": "memfn", "path": "harness/memfn.c", "serves_properties": ["C07"], "kind_free_text": "orc_memcpy/orc_memset vs memcpy/memset over lengths and alignments with canaries"},
    {"name": "fault", "path": "harness/fault.c", "serves_properties": ["C06", "C09", "C16"], "kind_free_text": "--wrap based failure injection for mkstemp/ftruncate/mmap with per-process failure plans"},
    {"name": "mt", "path": "harness/mt.c", "serves_properties": ["C08"], "kind_free_text": "multi-threaded scenarios built with -fsanitize=thread, delays injected through orc_verif_yield_hook"},
    {"name": "cpu", "path": "harness/cpu.c", "serves_properties": ["C19"], "kind_free_text": "per-process probe of target selection under masked cpuid"},
    {"name": "asmdump+asmcmp", "path": "harness/asmdump.c", "serves_properties": ["C11", "C12"],
     "kind_free_text": "dumps listing and machine code of compiled programs; vlib/asmcmp.py compares them through GNU as/objdump and classifies instructions against ISA subsets"},
]


def main():
    try:
        commits = subprocess.run(["git", "-C", "/repo", "log", "--format=%h %s", "--grep=^verif-hook:"], stdout=subprocess.PIPE, text=True).stdout.strip().splitlines()
    except OSError:
        commits = []
    m = {
        "version": 1,
        "setup_cmd": "./check --setup",
        "hooks": {
            "guard": "ORC_VERIF_HOOKS",
            "enable": "checks compile /repo/orc/*.c themselves (vlib/build.py) with -DORC_VERIF_HOOKS into /verif/.cache; /repo/_build is never used",
            "baseline_off_cmd": "ninja -C /repo/_build && meson test -C /repo/_build",
            "source_commits": [c.split(" ")[0] for c in commits],
            "add_only": True,
        },
        "engines": ENGINES,
        "checks": [],
        "not_applicable": [{"property_id": p, "reason": "check not built yet in this round (work in progress, see DESIGN.md section 4)"} for p in PENDING if p not in CHECKS],
        "notes": "All verdicts come from observing executions of code built from /repo's working tree; see DESIGN.md. Exit codes: 0 held, 1 violation, 2 inconclusive.",
    }
    for pid in sorted(CHECKS):
        c = CHECKS[pid]
        m["checks"].append({
            "property_id": pid,
            "quick_cmd": "./check %s --tier quick" % pid,
            "thorough_cmd": "./check %s --tier thorough" % pid,
            "evidence_file": "evidence/%s.json" % pid,
            "replay_cmd_template": "./check %s --replay {path}" % pid,
            "engine": c["engine"],
            "level_claimed": {"category": c["cat"], "text": c["text"], "design_ref": "DESIGN.md section 4 / %s" % pid},
            "level_note": c["note"],
            "technique": c["tech"],
        })
    with open(os.path.join(HERE, "MANIFEST.json"), "w") as f:
        json.dump(m, f, indent=1)
    print("wrote MANIFEST.json with %d checks, %d not_applicable" % (len(m["checks"]), len(m["not_applicable"])))


if __name__ == "__main__":
    main()
