"""Generic driver pieces: sharded harness execution with crash containment and
watchdog, event aggregation, known-finding matching, replay files, evidence."""
import hashlib
import json
import os
import re
import shutil
import signal
import subprocess
import sys
import tempfile
import threading
import time

from . import build

VERIF = build.VERIF
# VERIF_OUT redirects evidence and replay files (used when a seeded change is checked next to other runs)
_OUT = os.environ.get("VERIF_OUT", VERIF)
EVID = os.path.join(_OUT, "evidence")
REPLAY = os.path.join(_OUT, "replay")
KNOWN = os.path.join(VERIF, "known_findings.json")
NCPU = min(16, os.cpu_count() or 4)


def log(msg):
    sys.stderr.write("[check] %s\n" % msg)
    sys.stderr.flush()


class RunDir:
    """Per-run scratch directory under /verif/.cache/run (HOME/TMPDIR of children point here)."""

    def __init__(self, tag):
        base = os.path.join(build.CACHE, "run")
        os.makedirs(base, exist_ok=True)
        self.path = tempfile.mkdtemp(prefix=tag + "-", dir=base)

    def env(self, extra=None):
        e = dict(os.environ)
        for k in ("ORC_CODE", "ORC_DEBUG", "ORC_BACKEND", "ORC_TARGET"):
            e.pop(k, None)
        e["HOME"] = self.path
        e["TMPDIR"] = self.path
        e["XDG_RUNTIME_DIR"] = self.path
        e.setdefault("ASAN_OPTIONS", "abort_on_error=1:detect_leaks=0:handle_segv=0:handle_sigbus=0:handle_sigill=0:handle_sigfpe=0:allocator_may_return_null=1")
        e.setdefault("UBSAN_OPTIONS", "print_stacktrace=1:halt_on_error=1:abort_on_error=1")
        if extra:
            e.update(extra)
        return e

    def cleanup(self):
        shutil.rmtree(self.path, ignore_errors=True)


class Result:
    def __init__(self, prop):
        self.prop = prop
        self.counters = {}
        self.sets = {}
        self.violations = []      # dicts: prop, sig, what, detail
        self.samples = []
        self.notes = []
        self.inconclusive = []    # reasons
        self.crashes = 0
        self.t0 = time.time()

    def add_events(self, path):
        done = False
        try:
            f = open(path)
        except OSError:
            return False
        for line in f:
            line = line.strip()
            if not line:
                continue
            try:
                e = json.loads(line)
            except ValueError:
                continue
            t = e.get("t")
            if t == "stat":
                for k, v in e.get("k", {}).items():
                    self.counters[k] = self.counters.get(k, 0) + v
                for item in e.get("sets", {}).get("_", []):
                    s, _, it = item.partition("\t")
                    self.sets.setdefault(s, set()).add(it)
            elif t == "viol":
                self.violations.append(e)
            elif t == "sample":
                if len(self.samples) < 12:
                    self.samples.append({"kind": e.get("kind"), "value": e.get("v")})
            elif t == "note":
                self.notes.append(e)
            elif t == "done":
                done = True
        f.close()
        return done

    def count(self, k, v=1):
        self.counters[k] = self.counters.get(k, 0) + v


SAN_RE = re.compile(r"ERROR: (AddressSanitizer|LeakSanitizer|ThreadSanitizer|UndefinedBehaviorSanitizer): ([A-Za-z0-9\- _]+)")
UB_RE = re.compile(r"runtime error: ([^\n]+)")
FRAME_RE = re.compile(r"#\d+ 0x[0-9a-f]+ in ([A-Za-z0-9_]+) ")


def sanitizer_signature(text):
    """(kind, innermost orc frame) from a sanitizer report; None if there is none."""
    m = SAN_RE.search(text)
    kind = None
    if m:
        kind = m.group(2).strip().split(" on ")[0].split(" in ")[0].strip().replace(" ", "-")
    else:
        m2 = UB_RE.search(text)
        if m2:
            kind = "ub-" + re.sub(r"0x[0-9a-f]+|\d+", "N", m2.group(1))[:60].strip().replace(" ", "-")
    if kind is None:
        return None
    start = m.start() if m else 0
    frame = "?"
    for fm in FRAME_RE.finditer(text[start:]):
        fn = fm.group(1)
        if fn.startswith(("orc_", "emulate_", "sse_", "mmx_", "avx_", "c_rule", "output_", "mips_", "neon_", "powerpc_", "orcc", "get_", "load_", "parse_")) or "orc" in fn:
            frame = fn
            break
    return kind, frame


_RUN_SHARDED_CALLS = 0


def run_sharded(res, exe, args, rundir, nshards=NCPU, per_case_timeout=120, env_extra=None, crash_prop=None,
                crash_is_violation=True, max_restarts=60, total_cases_hint=None, max_hangs=2):
    """Runs `exe args --shard i --nshards N` for all shards in parallel.  A shard that dies is
    attributed to the case named in its progress file, recorded, and restarted after that case.
    A shard whose progress does not change for per_case_timeout seconds is killed (hang event)."""
    env = rundir.env(env_extra)
    lock = threading.Lock()
    # harnesses append to their event file: every call gets file names of its own, or a second phase run in the same
    # directory would read the first phase's events again
    global _RUN_SHARDED_CALLS
    _RUN_SHARDED_CALLS += 1
    callid = _RUN_SHARDED_CALLS

    def one(shard):
        start = 0
        restarts = 0
        hangs = 0
        while True:
            out = os.path.join(rundir.path, "ev-%d-%d-%d.jsonl" % (callid, shard, restarts))
            prog = os.path.join(rundir.path, "pr-%d-%d.txt" % (callid, shard))
            errp = os.path.join(rundir.path, "err-%d-%d-%d.txt" % (callid, shard, restarts))
            try:
                os.unlink(prog)
            except OSError:
                pass
            cmd = [exe] + args + ["--shard", str(shard), "--nshards", str(nshards), "--start", str(start),
                                  "--out", out, "--progress", prog]
            with open(errp, "w") as ef:
                p = subprocess.Popen(cmd, stdout=subprocess.DEVNULL, stderr=ef, env=env, cwd=rundir.path,
                                     start_new_session=True)
                last_prog = None
                last_change = time.time()
                hung = False
                while True:
                    try:
                        p.wait(timeout=2)
                        break
                    except subprocess.TimeoutExpired:
                        pass
                    try:
                        cur = open(prog).readline()
                    except OSError:
                        cur = None
                    if cur != last_prog:
                        last_prog = cur
                        last_change = time.time()
                    elif time.time() - last_change > per_case_timeout:
                        hung = True
                        try:
                            os.killpg(p.pid, signal.SIGKILL)
                        except OSError:
                            pass
                        p.wait()
                        break
            with lock:
                done = res.add_events(out)
            if p.returncode == 0 and done and not hung:
                return
            # abnormal end
            try:
                line = open(prog).readline().rstrip()
            except OSError:
                line = ""
            caseidx, _, desc = line.partition("\t")
            try:
                caseidx = int(caseidx)
            except ValueError:
                caseidx = start
            desc = desc.strip()
            try:
                errtxt = open(errp, errors="replace").read()[-20000:]
            except OSError:
                errtxt = ""
            san = sanitizer_signature(errtxt)
            with lock:
                res.crashes += 1
                if hung:
                    what = "case did not finish within %ds: %s" % (per_case_timeout, desc)
                    sig = "%s|hang|%s" % (crash_prop or res.prop, re.sub(r"\d+", "N", desc.split(" ")[0] if desc else "?"))
                    res.violations.append({"t": "viol", "prop": crash_prop or res.prop, "sig": sig, "what": what, "hang": True,
                                           "detail": {"harness": os.path.basename(exe).split("-")[0], "args": args, "case": caseidx, "desc": desc}})
                else:
                    if san:
                        sig = "%s|%s|%s" % (crash_prop or res.prop, san[0], san[1])
                        what = "sanitizer report %s in %s while running: %s" % (san[0], san[1], desc)
                    else:
                        rc = p.returncode
                        signame = signal.Signals(-rc).name if rc is not None and rc < 0 else "exit%s" % rc
                        sig = "%s|crash|%s|%s" % (crash_prop or res.prop, signame, re.sub(r"[0-9]+", "N", desc)[:80])
                        what = "harness died with %s while running: %s" % (signame, desc)
                    ev = {"t": "viol", "prop": crash_prop or res.prop, "sig": sig, "what": what,
                          "detail": {"harness": os.path.basename(exe).split("-")[0], "args": args, "case": caseidx, "desc": desc,
                                     "stderr_tail": errtxt[-3000:]}}
                    if crash_is_violation:
                        res.violations.append(ev)
                    else:
                        res.inconclusive.append(what)
            if done and not hung:
                # the shard had finished all its cases and failed while exiting (e.g. LeakSanitizer): nothing is left to run
                return
            restarts += 1
            start = caseidx + 1
            if hung:
                hangs += 1
                if hangs >= max_hangs:
                    # every hang costs a full watchdog period: the violations are recorded, stop exploring this shard
                    with lock:
                        res.notes.append({"t": "note", "text": "shard %d abandoned after %d hangs" % (shard, hangs)})
                    return
            if restarts > max_restarts:
                with lock:
                    res.inconclusive.append("shard %d restarted more than %d times" % (shard, max_restarts))
                return

    threads = [threading.Thread(target=one, args=(i,)) for i in range(nshards)]
    for t in threads:
        t.start()
    for t in threads:
        t.join()


def run_child(cmd, env=None, cwd=None, timeout=120, retry_timeout=None, shell=False, once=False):
    """Run a child with a watchdog.  A first timeout proves nothing on a loaded machine: the child is run once more with a
    much longer watchdog.  Returns (returncode, stdout, stderr); returncode None means it did not finish either time."""
    for t in ((timeout,) if once else (timeout, retry_timeout or timeout * 8)):
        try:
            p = subprocess.run(cmd, shell=shell, stdout=subprocess.PIPE, stderr=subprocess.PIPE, env=env, cwd=cwd, timeout=t, text=True, errors="replace")
            return p.returncode, p.stdout, p.stderr
        except subprocess.TimeoutExpired:
            continue
    return None, "", "timeout (did not finish within %ss, nor within %ss when run again)" % (timeout, retry_timeout or timeout * 8)


def load_known(prop):
    try:
        data = json.load(open(KNOWN))
    except (OSError, ValueError):
        return []
    return [k for k in data.get("findings", []) if k.get("property") == prop]


def finish(res, tier, seed, level, rule, evaluations, distinct, coverage_extra=None, assumptions=None, floor_problems=None,
           samples=None):
    """Match violations against known findings, write replay files and evidence, print verdict lines.
    Returns the process exit code."""
    prop = res.prop
    known = load_known(prop)
    mine = [v for v in res.violations if v.get("prop") == prop]
    other = [v for v in res.violations if v.get("prop") != prop]
    os.makedirs(os.path.join(REPLAY, prop), exist_ok=True)
    for old_f in os.listdir(os.path.join(REPLAY, prop)):
        if old_f.endswith(".json"):
            os.unlink(os.path.join(REPLAY, prop, old_f))
    if other:
        # not this property's verdict, but never silent: the owning check may not generate the same case
        osigs = sorted(set(v["sig"] for v in other))
        print("NOTE: %d observation(s) that belong to other properties were made during this run (their own checks decide them): %s" % (len(other), "; ".join(osigs[:6])))
    by_sig = {}
    for v in mine:
        by_sig.setdefault(v["sig"], []).append(v)
    unknown = []
    matched = {}
    for sig, vs in sorted(by_sig.items()):
        hit = None
        for k in known:
            if k.get("status") != "known":
                continue
            pat = k.get("pattern")
            if pat and re.search(pat, sig):
                hit = k
                break
            if k.get("signature") == sig:
                hit = k
                break
        if hit is not None:
            matched.setdefault(hit.get("id", hit.get("pattern", hit.get("signature"))), [hit, 0])[1] += len(vs)
        else:
            unknown.append((sig, vs))
    lines = []
    for k in known:
        if k.get("status") == "known":
            key = k.get("id", k.get("pattern", k.get("signature")))
            n = matched.get(key, [k, 0])[1]
            lines.append("KNOWN-FINDING: property=%s %s (observed %d times in this run)" % (prop, k.get("what", key), n))
    replay_paths = []
    MAXW = 40      # witnesses written per run; a broken tree can produce thousands of signatures
    for sig, vs in unknown[:MAXW]:
        v = vs[0]
        h = hashlib.sha1(sig.encode()).hexdigest()[:12]
        path = os.path.join(REPLAY, prop, "%s.json" % h)
        with open(path, "w") as f:
            json.dump({"property": prop, "signature": sig, "what": v.get("what"), "count": len(vs), "seed": seed, "tier": tier,
                       "detail": v.get("detail")}, f, indent=1)
        replay_paths.append(path)
        lines.append("VIOLATION property=%s replay=%s" % (prop, path))
        log("violation %s: %s" % (sig, v.get("what")))
    if len(unknown) > MAXW:
        lines.append("NOTE: %d further violation signatures not written out (see evidence violation_signatures)" % (len(unknown) - MAXW))
    verdict = "held"
    code = 0
    if unknown:
        verdict = "violated"
        code = 1
    elif res.inconclusive or floor_problems:
        verdict = "inconclusive"
        code = 2
    cov = {
        "evaluations": int(evaluations),
        "distinct_nontrivial": int(distinct),
        "rule": rule,
        "samples": (samples if samples is not None else res.samples) or [{"note": "no sample recorded"}],
        "verdict": verdict,
        "counters": {k: res.counters[k] for k in sorted(res.counters)},
        "sets": {k: (sorted(v)[:40] if len(v) > 40 else sorted(v)) for k, v in sorted(res.sets.items())},
        "set_sizes": {k: len(v) for k, v in sorted(res.sets.items())},
        "violation_signatures": sorted(by_sig.keys())[:200], "violation_signature_count": len(by_sig),
        "known_findings_matched": {str(k): n for k, (kk, n) in matched.items()},
        "other_property_observations": sorted(set(v["sig"] for v in other))[:30],
        "harness_crashes": res.crashes,
        "inconclusive_reasons": (res.inconclusive + (floor_problems or []))[:20],
    }
    if coverage_extra:
        cov.update(coverage_extra)
    ev = {
        "property_id": prop, "tier": tier, "seed": int(seed), "level": level, "coverage": cov,
        "assumptions": assumptions or [], "wall_s": round(time.time() - res.t0, 2), "violations": len(unknown),
    }
    os.makedirs(EVID, exist_ok=True)
    with open(os.path.join(EVID, "%s.json" % prop), "w") as f:
        json.dump(ev, f, indent=1, sort_keys=True)
    for l in lines:
        print(l)
    print("RESULT property=%s verdict=%s evaluations=%d distinct=%d wall_s=%.1f" % (prop, verdict, evaluations, distinct, time.time() - res.t0))
    if verdict == "inconclusive":
        for r in (res.inconclusive + (floor_problems or []))[:10]:
            print("INCONCLUSIVE: %s" % r)
    sys.stdout.flush()
    return code
