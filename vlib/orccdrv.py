"""C07/C04: drive the real orcc over generated .orc files, compile what it emits
and run the generated functions through their prototypes in every mode."""
import os
import re
import subprocess

from . import build

GCC = "gcc -O2 -g -w -pthread"


def sh(cmd, cwd=None, env=None, timeout=300):
    # a timeout is retried once with 8x the time (loaded machine); rc None only if it did not finish either time
    from . import driver
    return driver.run_child(cmd, env=env, cwd=cwd, timeout=timeout, shell=True)


ORCC_CONFIGS = [
    ("default", ""),
    ("inline", "--inline"),
    ("lazy-init", "--lazy-init"),
    ("no-backup", "--no-backup"),
    ("internal", "--internal"),
    ("compat-0.4.16", "--compat 0.4.16"),
    ("compat-0.4.10", "--compat 0.4.10"),
    ("compat-0.4.7", "--compat 0.4.7"),
    ("compat-0.4.5", "--compat 0.4.5"),
    ("inline+lazy", "--inline --lazy-init"),
    ("init-function", "--init-function vf_init_all"),
]
CONFIG_BY_NAME = dict(ORCC_CONFIGS)


def gcc_error_key(err):
    m = re.search(r"error: ([^\n]*)", err)
    if not m:
        return "?"
    t = re.sub(r"[0-9]+", "N", m.group(1))
    t = re.sub(r"[‘’'`\"][^‘’'`\"]*[‘’'`\"]", "X", t)
    return t[:50]


def run_batch(rd, seed, batch, mode, nfun, configs, genexe, orcc, libdir, env, prop="C07", runmodes=("jit", "backup", "emulate"),
              do_noorc=True, do_test=True, tsan_libdir=None, threads=8):
    """One generated .orc file through orcc in each configuration.  Returns (counters, violations)."""
    ev = {}
    viol = []

    def cnt(k, n=1):
        ev[k] = ev.get(k, 0) + n

    name = "b%d_%s" % (batch, mode)
    prefix = os.path.join(rd, name)
    det0 = {"harness": "orccdrv", "seed": seed, "batch": batch, "mode": mode, "nfun": nfun}

    def V(sigtail, what, **kw):
        viol.append(("%s|%s" % (prop, sigtail), what, dict(det0, **kw)))

    rc, out, err = sh("%s --seed %d --limit %d --mode %s --aux %s --start %d" % (genexe, seed * 100 + batch, nfun, mode, prefix, batch * nfun if mode in ("single", "fsingle") else 0), env=env)
    if rc != 0:
        V("harness|orccgen-failed", "orccgen failed: %s" % err[-300:])
        return ev, viol
    expected = dict(l.split() for l in open(prefix + ".expected") if l.strip())
    if not expected:
        return ev, viol
    cnt("functions_generated", len(expected))
    orctext = open(prefix + ".orc").read()

    def fn_text(fn):
        m = re.search(r"\.function %s\n.*?(?=\n\.function |\Z)" % re.escape(fn), orctext, re.S)
        return m.group(0) if m else ""

    def opnames(fn):
        ops = []
        for l in fn_text(fn).splitlines():
            if l and not l.startswith("."):
                t = l.split()
                ops.append(t[1] if t[0] in ("x2", "x4") else t[0])
        return ops

    for fn in expected:
        for o in opnames(fn):
            ev.setdefault("opcodes", set()).add(o)
    f0 = sorted(expected)[batch % len(expected)]
    ev["sample"] = {"function": f0, "orc_text": fn_text(f0), "expected_checksum": expected[f0], "config": [c for c, _ in configs], "batch": name}

    def check_output(label, out, cfg, runmode):
        got = dict(l.split() for l in out.splitlines() if len(l.split()) == 2)
        if "THREAD-MISMATCH" in got:
            V("threads-disagree|%s|%s" % (cfg, runmode), "%s: threads making concurrent first calls computed different results" % label, config=cfg, run=runmode)
        for fn, h in expected.items():
            cnt("function_runs")
            if fn not in got:
                V("missing-output|%s|%s" % (cfg, runmode), "%s: function %s produced no output line" % (label, fn), function=fn, config=cfg, run=runmode)
            elif got[fn] != h:
                ops = opnames(fn)
                V("wrong-result|%s|%s" % (runmode, ops[0] if len(ops) == 1 else "multi"),
                  "%s: function %s called through its prototype gives checksum %s, reference interpreter %s\n%s" % (label, fn, got[fn], h, fn_text(fn)),
                  function=fn, config=cfg, run=runmode)
            else:
                cnt("function_runs_equal")
                cnt("runs_equal.%s" % runmode)

    for cfg, opts in configs:
        tag = "%s_%s" % (name, re.sub(r"[^a-z0-9]", "_", cfg))
        hdir = os.path.join(rd, tag + "_h")
        os.makedirs(hdir, exist_ok=True)
        hfile = os.path.join(hdir, name + ".h")
        cfile = os.path.join(rd, tag + ".c")
        refused = False
        for what, target in (("header", hfile), ("implementation", cfile)):
            rc, out, err = sh("%s --%s %s -o %s %s.orc" % (orcc, what, opts, target, prefix), env=env)
            if rc != 0 and cfg.startswith("compat") and "incompatible with --compat" in err:
                cnt("orcc_refused_by_compat")
                refused = True
                break
            if rc is None:
                ev.setdefault("tool_timeouts", []).append("orcc --%s %s" % (what, cfg))
                refused = True
                break
            if rc != 0:
                V("orcc-failed|%s|%s" % (what, cfg), "orcc --%s %s failed (status %s): %s" % (what, opts, rc, (err + out)[-400:]), config=cfg)
                refused = True
                break
            cnt("orcc_runs")
        if refused:
            continue
        extra = "-DHAVE_INIT_FUNCTION=vf_init_all" if cfg == "init-function" else ""
        # (a) with liborc
        exe = os.path.join(rd, tag + ".bin")
        rc, out, err = sh("%s %s -DORC_ENABLE_UNSTABLE_API -I%s -I%s -I%s %s %s_drv.c -o %s %s/liborc.a -lm" % (GCC, extra, hdir, build.REPO, libdir, cfile, prefix, exe, libdir))
        if rc is None:
            ev.setdefault("tool_timeouts", []).append("gcc %s" % cfg)
        elif rc != 0:
            V("gcc-rejects|%s|%s" % (cfg, gcc_error_key(err)), "gcc rejects orcc output (%s): %s" % (cfg, err[-600:]), config=cfg)
        else:
            cnt("compiled_with_orc")
            for runmode in runmodes:
                e2 = dict(env)
                if runmode != "jit":
                    e2["ORC_CODE"] = runmode
                rc, out, err = sh(exe, env=e2, cwd=rd, timeout=120)
                if rc != 0:
                    V("%s|%s|%s" % ("hang" if rc is None else "crash", cfg, runmode), "generated program %s in mode %s: %s" % ("did not finish" if rc is None else "died (status %s)" % rc, runmode, err[-300:]), config=cfg, run=runmode)
                    continue
                cnt("program_runs")
                check_output("%s/%s/%s" % (name, cfg, runmode), out, cfg, runmode)
        # (b) Orc-free build (--inline puts the Orc-calling wrappers into the header: there is no Orc-free form of it)
        if do_noorc and "inline" not in cfg and cfg != "init-function":
            exe2 = os.path.join(rd, tag + ".noorc.bin")
            rc, out, err = sh("%s -DDISABLE_ORC -I%s %s %s_drv.c -o %s -lm" % (GCC, hdir, cfile, prefix, exe2))
            if rc is None:
                ev.setdefault("tool_timeouts", []).append("gcc disable-orc %s" % cfg)
            elif rc != 0:
                V("gcc-rejects-disable-orc|%s|%s" % (cfg, gcc_error_key(err)), "gcc rejects orcc output with -DDISABLE_ORC (%s): %s" % (cfg, err[-600:]), config=cfg)
            else:
                cnt("compiled_disable_orc")
                rc, out, err = sh(exe2, env=env, cwd=rd, timeout=120)
                if rc != 0:
                    V("crash|%s|disable-orc" % cfg, "Orc-free program died (status %s): %s" % (rc, err[-300:]), config=cfg, run="disable-orc")
                else:
                    cnt("program_runs")
                    check_output("%s/%s/disable-orc" % (name, cfg), out, cfg, "disable-orc")
        # (c) concurrent first calls under ThreadSanitizer
        if tsan_libdir and cfg in ("default", "lazy-init", "inline", "compat-0.4.10"):
            exe3 = os.path.join(rd, tag + ".tsan.bin")
            rc, out, err = sh("%s -fsanitize=thread %s -DORC_ENABLE_UNSTABLE_API -I%s -I%s -I%s %s %s_drv.c -o %s %s/liborc.a -lm" % (GCC, extra, hdir, build.REPO, tsan_libdir, cfile, prefix, exe3, tsan_libdir))
            if rc != 0:
                V("harness|tsan-build", "tsan build failed: %s" % err[-300:], config=cfg)
            else:
                e3 = dict(env, VF_THREADS=str(threads), TSAN_OPTIONS="halt_on_error=0:report_signal_unsafe=0:exitcode=0")
                rc, out, err = sh(exe3, env=e3, cwd=rd, timeout=300)
                cnt("tsan_runs")
                cnt("tsan_threads", threads)
                if rc != 0:
                    V("crash|%s|tsan" % cfg, "program making concurrent first calls died (status %s): %s" % (rc, err[-300:]), config=cfg, run="tsan")
                else:
                    check_output("%s/%s/threads" % (name, cfg), out, cfg, "threads")
                    nrep = err.count("WARNING: ThreadSanitizer")
                    if nrep:
                        m = re.search(r"WARNING: ThreadSanitizer: ([^\n(]*)", err)
                        fr = re.findall(r"#0 (\S+)", err)
                        V("tsan|%s|%s|%s" % (cfg, m.group(1).strip() if m else "?", fr[0] if fr else "?"), "ThreadSanitizer reports %d problems when %d threads make the first calls: %s" % (nrep, threads, err[:1500]), config=cfg, run="tsan")
    # --test output: compile and run as is
    if do_test:
        tfile = os.path.join(rd, name + "_test.c")
        rc, out, err = sh("%s --test -o %s %s.orc" % (orcc, tfile, prefix), env=env)
        if rc == 0:
            texe = os.path.join(rd, name + "_test.bin")
            testlib = os.path.join(libdir, "liborctest.a")
            rc, out, err = sh("%s -DORC_ENABLE_UNSTABLE_API -I%s -I%s %s -o %s %s %s/liborc.a -lm" % (GCC, build.REPO, libdir, tfile, texe, testlib, libdir))
            if rc != 0:
                V("gcc-rejects|test-mode|%s" % gcc_error_key(err), "gcc rejects orcc --test output: %s" % err[-500:], config="test")
            else:
                cnt("test_programs_compiled")
                rc, out, err = sh(texe + " -q", env=env, cwd=rd, timeout=300)
                cnt("test_programs_run")
                # float programs: orc-test feeds NaNs, whose payload/sign is outside this property (C18's business): only a death counts there
                if rc != 0 and (mode == "int" or rc is None or rc < 0):
                    V("test-mode-fails", "the program generated by orcc --test exits with status %s: %s" % (rc, (out + err)[-500:]), config="test")
        else:
            V("orcc-failed|test", "orcc --test failed: %s" % (err + out)[-300:], config="test")
    return ev, viol


def corpus_files():
    r = build.REPO
    c = [os.path.join(r, "testsuite/test.orc"), os.path.join(r, "testsuite/orcc/test.orc"), os.path.join(r, "orc/orcfunctions.orc")]
    # (testsuite/benchmorc/bench10.orc defines several functions twice - it is parsed at run time by the benchmark, never given to orcc)
    for d in ("testsuite/compatibility", "examples"):
        p = os.path.join(r, d)
        if os.path.isdir(p):
            c += sorted(os.path.join(p, n) for n in os.listdir(p) if n.endswith(".orc"))
    return [f for f in c if os.path.exists(f)]


def run_corpus(rd, idx, path, configs, orcc, libdir, env, prop="C07"):
    """A .orc file of the repository through every configuration: generated C must compile (with and without Orc)."""
    ev = {}
    viol = []

    def cnt(k, n=1):
        ev[k] = ev.get(k, 0) + n
    base = "corpus%d" % idx
    # application types the corpus files name in their declarations (applications pass their own header with --include)
    with open(os.path.join(rd, "apptypes.h"), "w") as f:
        f.write("#include <stdint.h>\ntypedef uint8_t guint8; typedef int8_t gint8; typedef uint16_t guint16; typedef int16_t gint16; typedef uint32_t guint32; "
                "typedef int32_t gint32; typedef uint64_t guint64; typedef int64_t gint64; typedef float gfloat; typedef double gdouble; typedef unsigned char guchar; typedef char gchar;\n")
    det0 = {"harness": "orccdrv-corpus", "file": os.path.relpath(path, build.REPO), "idx": idx}
    for cfg, opts in configs:
        if "inline" in cfg and path.endswith("orcfunctions.orc"):
            continue        # orc.h itself declares these functions extern: an inline (static) copy cannot coexist with it
        tag = "%s_%s" % (base, re.sub(r"[^a-z0-9]", "_", cfg))
        hfile = os.path.join(rd, tag + ".h")
        cfile = os.path.join(rd, tag + ".c")
        ok = True
        for what, target in (("header", hfile), ("implementation", cfile)):
            rc, out, err = sh("%s --%s %s --include apptypes.h -o %s %s" % (orcc, what, opts, target, path), env=env)
            if rc != 0 and cfg.startswith("compat") and "incompatible with --compat" in err:
                cnt("orcc_refused_by_compat")
                ok = False
                break
            if rc != 0:
                viol.append(("%s|corpus|orcc-failed|%s|%s" % (prop, what, cfg), "orcc --%s %s failed on %s: %s" % (what, opts, det0["file"], (err + out)[-300:]), dict(det0, config=cfg)))
                ok = False
                break
            cnt("orcc_runs")
        if not ok:
            continue
        glue = os.path.join(rd, tag + "_use.c")
        with open(glue, "w") as f:
            f.write('#include "%s"\nint corpus_use_%d;\n' % (os.path.basename(hfile), idx))
        for label, flags in (("orc", "-DORC_ENABLE_UNSTABLE_API -I%s -I%s" % (build.REPO, libdir)), ("disable-orc", "-DDISABLE_ORC")):
            if label == "disable-orc" and "inline" in cfg:
                continue
            rc, out, err = sh("%s %s -I%s -c %s -o %s.o && %s %s -I%s -c %s -o %s.o" % (GCC, flags, rd, cfile, cfile, GCC, flags, rd, glue, glue))
            if rc != 0:
                viol.append(("%s|corpus|gcc-rejects|%s|%s|%s" % (prop, label, cfg, gcc_error_key(err)), "gcc rejects orcc output for %s (%s, %s): %s" % (det0["file"], cfg, label, err[-500:]), dict(det0, config=cfg)))
            else:
                cnt("corpus_compiles")
    return ev, viol
