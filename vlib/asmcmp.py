"""Listing-vs-machine-code comparison (C12) and ISA-subset classification (C11)
using GNU as / objdump as oracles over the batches written by harness/asmdump.c."""
import json
import os
import re
import subprocess

NOP_RE = re.compile(r"^(nop[wl]?\b.*|data16\b.*|cs nopw.*|xchg\s+%ax,%ax|int3|"
                    r"lea\s+0x0\((%[a-z0-9]+)(,%[er]iz,1)?\),\2)$")
BRANCH_RE = re.compile(r"^(j[a-z]+|loop[a-z]*|call|jmp)\s+(\*?)(0x)?([0-9a-f]+)\b(.*)$")
INSN_RE = re.compile(r"^\s*([0-9a-f]+):\s+(.*?)\s*$")
SYM_RE = re.compile(r"^([0-9a-f]+) <([^>]+)>:\s*$")


def run(cmd):
    p = subprocess.run(cmd, stdout=subprocess.PIPE, stderr=subprocess.PIPE, text=True, errors="replace")
    return p.returncode, p.stdout, p.stderr


def is_nop(text):
    t = text.strip()
    if NOP_RE.match(t):
        return True
    return t in ("nop", "int3") or t.startswith("nopw ") or t.startswith("nopl ") or t.startswith("data16 ")


def parse_objdump(out):
    """-> list of (addr, text); symbol lines become (addr, '<sym>name')."""
    res = []
    for line in out.splitlines():
        m = SYM_RE.match(line)
        if m:
            res.append((int(m.group(1), 16), "<sym>" + m.group(2)))
            continue
        m = INSN_RE.match(line)
        if m:
            txt = m.group(2)
            if not txt or txt == "...":
                continue
            res.append((int(m.group(1), 16), re.sub(r"\s+", " ", txt)))
    return res


def normalise(insns, base, end):
    """insns: (addr,text) within [base,end). Returns list of normalised strings with branch
    targets replaced by ordinals of non-nop instructions."""
    body = [(a, t) for a, t in insns if base <= a < end and not t.startswith("<sym>")]
    real = [(a, t) for a, t in body if not is_nop(t)]
    addrs = [a for a, _ in real]

    def ordinal(target):
        # first real instruction at address >= target
        for i, a in enumerate(addrs):
            if a >= target:
                return i
        return len(addrs)
    out = []
    for a, t in real:
        m = BRANCH_RE.match(t)
        if m and not m.group(2):
            tgt = int(m.group(4), 16)
            t = "%s @%d" % (m.group(1), ordinal(tgt))
        else:
            # objdump adds symbolic comments like '# 0x123 <sym+0x..>' for rip-relative operands
            t = re.sub(r"\s+#.*$", "", t)
            t = re.sub(r"\s+<[^>]*>$", "", t)
        out.append(t)
    return out


def compare_batch(prefix, is32):
    """Returns (list of per-function results, problems).  Each result: dict(name, equal, detail...)."""
    idx = [json.loads(l) for l in open(prefix + ".json")]
    mach = "i386" if is32 else "i386:x86-64"
    rc, out, err = run(["objdump", "-D", "-b", "binary", "-m", mach, "--no-show-raw-insn", prefix + ".bin"])
    if rc != 0:
        return [], ["objdump failed on %s.bin: %s" % (prefix, err[:300])]
    code = parse_objdump(out)
    rc, out2, err2 = run(["as", "--32" if is32 else "--64", prefix + ".s", "-o", prefix + ".o"])
    as_errors = {}
    if rc != 0:
        # map error lines to functions through the '# ---- name' markers
        lines = open(prefix + ".s").read().splitlines()
        cur = None
        owner = {}
        for i, l in enumerate(lines, 1):
            if l.startswith("# ---- "):
                cur = l[7:].strip()
            owner[i] = cur
        for el in err2.splitlines():
            m = re.match(r".*?:(\d+): (Error|Fatal error): (.*)$", el)
            if m:
                fn = owner.get(int(m.group(1)))
                as_errors.setdefault(fn, []).append((lines[int(m.group(1)) - 1].strip(), m.group(3)))
        # assemble the functions that are fine: drop the offending ones and retry once
        bad = set(as_errors)
        keep = []
        skip = False
        for l in lines:
            if l.startswith("# ---- "):
                skip = l[7:].strip() in bad
            if not skip:
                keep.append(l)
        with open(prefix + ".ok.s", "w") as f:
            f.write("\n".join(keep) + "\n")
        rc, out2, err3 = run(["as", "--32" if is32 else "--64", prefix + ".ok.s", "-o", prefix + ".o"])
        if rc != 0:
            return [], ["as failed twice on %s: %s" % (prefix, err3[:500])]
    rc, out3, err3 = run(["objdump", "-d", "--no-show-raw-insn", "-j", ".text", prefix + ".o"])
    if rc != 0:
        return [], ["objdump -d failed: %s" % err3[:300]]
    lst = parse_objdump(out3)
    # function extents in the assembled object
    syms = [(a, t[5:]) for a, t in lst if t.startswith("<sym>")]
    ends = {}
    last_addr = max([a for a, _ in lst] + [0]) + 16
    for i, (a, n) in enumerate(syms):
        ends[n] = (a, syms[i + 1][0] if i + 1 < len(syms) else last_addr)
    results = []
    for e in idx:
        name = e["name"]
        r = {"name": name, "target": e["target"], "flags": e["flags"], "case": e["case"], "program": e["program"], "bits": 32 if is32 else 64}
        cn = normalise(code, e["offset"], e["offset"] + e["size"])
        r["code_insns"] = len(cn)
        r["code_norm"] = cn
        if name in as_errors:
            r["equal"] = False
            r["kind"] = "as-rejects-listing"
            r["listing_line"], r["as_message"] = as_errors[name][0]
            results.append(r)
            continue
        if name not in ends:
            r["equal"] = False
            r["kind"] = "symbol-missing"
            results.append(r)
            continue
        ln = normalise(lst, ends[name][0], ends[name][1])
        if ln == cn:
            r["equal"] = True
        else:
            r["equal"] = False
            r["kind"] = "sequence"
            k = 0
            while k < len(ln) and k < len(cn) and ln[k] == cn[k]:
                k += 1
            r["index"] = k
            r["listing_insn"] = ln[k] if k < len(ln) else "<end>"
            r["code_insn"] = cn[k] if k < len(cn) else "<end>"
        results.append(r)
    return results, []


def mnemonic(t):
    return t.split(" ")[0] if t else "?"


def operand_shape(t):
    """registers -> class, immediates -> $i, displacements dropped."""
    ops = t.split(" ", 1)[1] if " " in t else ""
    ops = re.sub(r"\$-?(0x)?[0-9a-f]+", "$i", ops)
    ops = re.sub(r"-?(0x)?[0-9a-f]+\(", "(", ops)
    ops = re.sub(r"%[xy]mm(\d+)", lambda m: "%" + ("vH" if int(m.group(1)) >= 8 else "vL"), ops)
    ops = re.sub(r"%mm\d", "%mm", ops)
    ops = re.sub(r"%r(8|9|1[0-5])[dwb]?", "%gH", ops)
    ops = re.sub(r"%[re]?(ax|bx|cx|dx|si|di|bp|sp)l?|%[abcd]l", "%gL", ops)
    return ops


def shape_for(target, t):
    """operand shape used in violation signatures (numbers dropped for MIPS, where registers are numbers too)."""
    if target == "mips":
        ops = t.split(" ", 1)[1] if " " in t else ""
        return re.sub(r"-?(0x)?[0-9a-f]+\b", "N", ops)
    return operand_shape(t)


# ---------------------------------------------------------------- MIPS (llvm-mc / llvm-objdump as the standard assembler)
LLVM_MC = "llvm-mc-14"
LLVM_OBJDUMP = "llvm-objdump-14"
MIPS_ATTR = "+mips32r2,+dsp,+dspr2"


def mips_tools_present():
    import shutil
    return bool(shutil.which(LLVM_MC) and shutil.which(LLVM_OBJDUMP))


def _mips_norm(insns, base, end):
    out = []
    for a, t in insns:
        if t.startswith("<sym>") or not (base <= a < end):
            continue
        t = re.sub(r"\s*<[^>]*>", "", t).strip()      # symbolisation of immediates and branch targets
        # orc encodes the listing's `nop` as `or $at,$at,$zero` ("what gnu as does", orcmips.c); llvm-mc as `sll $zero,$zero,0`:
        # two encodings of the same no-operation, as with the x86 padding forms
        if t in ("move $1, $1", "or $1, $1, $zero", "sll $zero, $zero, 0"):
            t = "nop"
        out.append(t)
    # trailing alignment padding of the last function of a batch
    while out and out[-1] == "nop":
        out.pop()
    return out


def compare_batch_mips(prefix):
    """Same contract as compare_batch for the batches of the mips back end: the listing is assembled by llvm-mc (mipsel, DSPr2),
    the emitted bytes are wrapped into an object through .byte lines; both are disassembled by llvm-objdump and compared
    instruction by instruction (branch displacements are printed relative, so no address normalisation is needed)."""
    idx = [json.loads(l) for l in open(prefix + ".json")]
    data = open(prefix + ".bin", "rb").read()
    with open(prefix + ".bytes.s", "w") as f:
        f.write(".text\n.set noreorder\n")
        for i in range(0, len(data), 16):
            f.write(".byte " + ",".join(str(b) for b in data[i:i + 16]) + "\n")
    mc = [LLVM_MC, "--arch=mipsel", "-mattr=" + MIPS_ATTR, "-filetype=obj"]
    rc, out, err = run(mc + [prefix + ".bytes.s", "-o", prefix + ".bytes.o"])
    if rc != 0:
        return [], ["llvm-mc failed on the byte image of %s: %s" % (prefix, err[:300])]
    rc, out, err = run([LLVM_OBJDUMP, "-d", "--no-show-raw-insn", "--mattr=" + MIPS_ATTR, prefix + ".bytes.o"])
    if rc != 0:
        return [], ["llvm-objdump failed on %s.bytes.o: %s" % (prefix, err[:300])]
    code = parse_objdump(out)
    rc, out2, err2 = run(mc + [prefix + ".s", "-o", prefix + ".o"])
    as_errors = {}
    if rc != 0:
        lines = open(prefix + ".s").read().splitlines()
        cur = None
        owner = {}
        for i, l in enumerate(lines, 1):
            if l.startswith("# ---- "):
                cur = l[7:].strip()
            owner[i] = cur
        for el in err2.splitlines():
            m = re.match(r".*?:(\d+):\d+: error: (.*)$", el)
            if m:
                fn = owner.get(int(m.group(1)))
                as_errors.setdefault(fn, []).append((lines[int(m.group(1)) - 1].strip(), m.group(2)))
        bad = set(as_errors)
        keep = []
        skip = False
        for l in lines:
            if l.startswith("# ---- "):
                skip = l[7:].strip() in bad
            if not skip:
                keep.append(l)
        with open(prefix + ".ok.s", "w") as f:
            f.write("\n".join(keep) + "\n")
        rc, out2, err3 = run(mc + [prefix + ".ok.s", "-o", prefix + ".o"])
        if rc != 0:
            return [], ["llvm-mc failed twice on %s: %s" % (prefix, err3[:500])]
    rc, out3, err3 = run([LLVM_OBJDUMP, "-d", "--no-show-raw-insn", "--mattr=" + MIPS_ATTR, prefix + ".o"])
    if rc != 0:
        return [], ["llvm-objdump -d failed: %s" % err3[:300]]
    lst = parse_objdump(out3)
    syms = [(a, t[5:]) for a, t in lst if t.startswith("<sym>") and not t[5:].startswith((".L", "$"))]
    ends = {}
    last_addr = max([a for a, _ in lst] + [0]) + 4
    for i, (a, n) in enumerate(syms):
        ends[n] = (a, syms[i + 1][0] if i + 1 < len(syms) else last_addr)
    results = []
    for e in idx:
        name = e["name"]
        r = {"name": name, "target": e["target"], "flags": e["flags"], "case": e["case"], "program": e["program"], "bits": 32}
        cn = _mips_norm(code, e["offset"], e["offset"] + e["size"])
        r["code_insns"] = len(cn)
        r["code_norm"] = cn
        if name in as_errors:
            r["equal"] = False
            r["kind"] = "as-rejects-listing"
            r["listing_line"], r["as_message"] = as_errors[name][0]
            results.append(r)
            continue
        if name not in ends:
            r["equal"] = False
            r["kind"] = "symbol-missing"
            results.append(r)
            continue
        ln = _mips_norm(lst, ends[name][0], ends[name][1])
        # alignment padding between functions belongs to the listing side only
        while len(ln) > len(cn) and ln[-1] == "nop":
            ln.pop()
        if ln == cn:
            r["equal"] = True
        else:
            r["equal"] = False
            r["kind"] = "sequence"
            k = 0
            while k < len(ln) and k < len(cn) and ln[k] == cn[k]:
                k += 1
            r["index"] = k
            r["listing_insn"] = ln[k] if k < len(ln) else "<end>"
            r["code_insn"] = cn[k] if k < len(cn) else "<end>"
        results.append(r)
    return results, []


# ---------------------------------------------------------------- C11
def arch_lines(target, flags, is32):
    SSE = {1: ".sse2", 2: ".sse3", 4: ".ssse3", 8: ".sse4.1", 16: ".sse4.2"}
    L = [".arch generic32" if is32 else ".arch generic64", ".arch .nosse", ".arch .nommx", ".arch .ibt"]
    forbid_xmm = False
    if target in ("sse", "avx"):
        L += [".arch .mmx", ".arch .sse"]
        for bit, ext in SSE.items():
            if flags & bit:
                L.append(".arch " + ext)
        if target == "avx":
            if flags & (1 << 10):
                L.append(".arch .avx")
            if flags & (1 << 11):
                L.append(".arch .avx2")
    else:
        L.append(".arch .mmx")
        if flags & 2:
            L.append(".arch .sse")      # MMXEXT instructions live in gas' .sse; xmm registers are checked separately
            forbid_xmm = True
        if flags & 4:
            L.append(".arch .3dnow")
        if flags & 8:
            L.append(".arch .3dnowa")
        if flags & 16:
            L.append(".arch .ssse3")
            forbid_xmm = True
        if flags & 32:
            L.append(".arch .sse4.1")
            forbid_xmm = True
        if not (flags & (2 | 16 | 32)):
            forbid_xmm = True
    return L, forbid_xmm


def isa_check_batch(prefix, is32):
    """Re-assemble the disassembly of the machine code of every function under the ISA its flags allow.
    Returns (results, problems): result dict(name, ok, offending=[(insn, message)])."""
    idx = [json.loads(l) for l in open(prefix + ".json")]
    mach = "i386" if is32 else "i386:x86-64"
    rc, out, err = run(["objdump", "-D", "-b", "binary", "-m", mach, "--no-show-raw-insn", prefix + ".bin"])
    if rc != 0:
        return [], ["objdump failed: %s" % err[:300]]
    code = parse_objdump(out)
    lines = [".text"]
    owner = {}
    results = {}
    for e in idx:
        base, end = e["offset"], e["offset"] + e["size"]
        body = [(a, t) for a, t in code if base <= a < end and not is_nop(t)]
        arch, forbid_xmm = arch_lines(e["target"], e["flags"], is32)
        lines.extend(arch)
        results[e["name"]] = {"name": e["name"], "target": e["target"], "flags": e["flags"], "case": e["case"], "bits": 32 if is32 else 64,
                              "program": e["program"], "ok": True, "offending": [], "insns": len(body)}
        targets = set()
        for a, t in body:
            m = BRANCH_RE.match(t)
            if m and not m.group(2):
                targets.add(int(m.group(4), 16))
        for a, t in body:
            if a in targets:
                lines.append(".L%s_%x:" % (e["name"], a))
            m = BRANCH_RE.match(t)
            if m and not m.group(2):
                t = "%s .L%s_%x" % (m.group(1), e["name"], int(m.group(4), 16))
            else:
                t = re.sub(r"\s+#.*$", "", t)
                t = re.sub(r"\s+<[^>]*>$", "", t)
            if t.startswith("(bad)") or t.startswith(".byte"):
                results[e["name"]]["ok"] = False
                results[e["name"]]["offending"].append((t, "undecodable bytes in machine code"))
                continue
            if forbid_xmm and re.search(r"%[xy]mm\d", t):
                results[e["name"]]["ok"] = False
                results[e["name"]]["offending"].append((t, "SSE register in MMX-target code"))
            lines.append(" " + t)
            owner[len(lines)] = (e["name"], t)
        for tg in targets:
            # branch to the end of the function
            if not any(a == tg for a, _ in body):
                lines.append(".L%s_%x:" % (e["name"], tg))
    with open(prefix + ".isa.s", "w") as f:
        f.write("\n".join(lines) + "\n")
    rc, out2, err2 = run(["as", "--32" if is32 else "--64", prefix + ".isa.s", "-o", prefix + ".isa.o"])
    problems = []
    for el in err2.splitlines():
        m = re.match(r".*?:(\d+): (Error|Fatal error): (.*)$", el)
        if not m:
            continue
        ln = int(m.group(1))
        if ln in owner:
            name, t = owner[ln]
            msg = m.group(3)
            if "not supported on" in msg or "bad register name" in msg or "unsupported instruction" in msg or "invalid instruction" in msg or "no such instruction" in msg:
                results[name]["ok"] = False
                results[name]["offending"].append((t, msg))
            else:
                # re-assembly artefact of objdump syntax: not an ISA verdict
                results[name].setdefault("syntax_artifacts", []).append((t, msg))
        else:
            problems.append(el[:200])
    return list(results.values()), problems
