#!/bin/sh
# usage: runall.sh <tier> <seed> [ids...]  - runs every check once, prints one line per check
tier=${1:-quick}; seed=${2:-1}; shift 2 2>/dev/null
ids=${*:-C01 C02 C03 C04 C05 C06 C07 C08 C09 C10 C11 C12 C13 C14 C15 C16 C17 C18 C19 C20}
cd "$(dirname "$0")"
for id in $ids; do
  t0=$(date +%s)
  out=$(VERIF_SEED=$seed VERIF_TIER=$tier ./check $id --tier $tier --seed $seed 2>&1); rc=$?
  t1=$(date +%s)
  echo "$id rc=$rc $((t1-t0))s $(echo "$out" | grep -c '^VIOLATION') violations; $(echo "$out" | grep '^RESULT' | tail -1)"
  echo "$out" | grep '^VIOLATION\|^INCONCLUSIVE' | head -5
done
